"""C11 — task filters keep exactly the selected tasks and leave a runnable track (DESIGN.md section 4, C11)."""
from __future__ import annotations

import ast
import itertools
import json

from sa import pat as _pat
from sa import source
from sa.cfg import cfg_of, conjuncts, guards, negate
from sa.classes import is_logging_stmt
from sa.source import AnchorMissing, dotted, is_self_attr, last_attr, local_defs, package_calls, params_of, short, u, walk_body
from sa.sym import UnknownAtom, bool_eval, oriented
from sa.tables import Outcome, Unsupported, decide, const_value

_L = "esrally/track/loader.py"
_T = "esrally/track/track.py"
_D = "esrally/driver/driver.py"
_S = "esrally/resources/track-schema.json"


def emptiness_test(test, obj_text):
    """True-polarity meaning of an emptiness test on obj: returns 'empty' / 'nonempty' / None."""
    t = test
    neg = False
    while isinstance(t, ast.UnaryOp) and isinstance(t.op, ast.Not):
        neg = not neg
        t = t.operand
    forms_obj = {obj_text, f"{obj_text}.tasks", f"list({obj_text})"}
    if u(t) in forms_obj:
        return "empty" if neg else "nonempty"
    is_len = lambda x: isinstance(x, ast.Call) and dotted(x.func) == "len" and len(x.args) == 1 and u(x.args[0]) in forms_obj  # noqa: E731
    c = oriented(t, is_len)  # the len(...) operand on the left, whichever way round the comparison is written
    if c:
        l, op, r = c
        if isinstance(r, ast.Constant) and r.value in (0, 1) and not isinstance(r.value, bool):
            k = r.value
            res = {("==", 0): "empty", (">", 0): "nonempty", ("!=", 0): "nonempty", ("<", 1): "empty", (">=", 1): "nonempty", ("<=", 0): "empty"}.get((op, k))
            if res:
                return ({"empty": "nonempty", "nonempty": "empty"}[res]) if neg else res
    return None


def run(chk):
    repo = chk.repo
    ldr, trk, drv = repo.module(_L), repo.module(_T), repo.module(_D)
    chk.use(ldr, trk, drv, _S)
    chk.explanation = (
        "Decides the filter as a finite decision function: the match routine abstractly interpreted over {exclude} x {parallel} x {some filter matches}; filter-spec parsing "
        "(name / type: / tag:); match semantics of the three filter classes and of parallel elements (exists-leaf), with tags normalised to a list; every site that can shrink a "
        "parallel element is followed by an emptiness test whose empty edge removes the element; the processor only removes (no stores on tasks, no mutation while iterating); "
        "consumer agreement (driver reports one entry per step; client floor of 1 for an emptied schedule); the removal of a leaf consults the leaf's completing role "
        "(completed-by), the attribute being derived from the track reader's data flow."
    )
    chk.not_decided = "an end-to-end race on the filtered track."
    P = ldr.cls("TaskFilterTrackProcessor")
    pm = ldr.methods(P)
    fo = pm.get("_filter_out_match")
    oa = pm.get("on_after_load_track")
    ff = pm.get("_filters_from_filtered_tasks")
    init = pm.get("__init__")
    if not all([fo, oa, ff, init]):
        raise AnchorMissing("TaskFilterTrackProcessor methods")

    # ---- O11.1 decision table ---------------------------------------------------------------------------------------------------------------
    chk.rule("O11.1", "match routine over {exclude, element is parallel, some filter matches}: leaf => remove == (match == exclude); parallel => remove == include and not match "
             "(otherwise descend); spec parsing: 1 part => name, type: => operation type, tag: => tag, else reject; filter classes compare the right fields; a parallel element "
             "matches iff some leaf matches; tags are a list", 16,
             "include keeps / exclude removes the wrong tasks for some filter list")
    if len(params_of(fo)) < 2:
        raise AnchorMissing("_filter_out_match(self, <task>): the task parameter")
    tp = params_of(fo)[1]
    PARALLEL_TESTS = ("hasattr({0}, 'tasks')", "isinstance({0}, Parallel)", "isinstance({0}, track.Parallel)")

    def atom(n, env):
        if _pat.is_(n, *(p_.format(tp) for p_ in PARALLEL_TESTS)):
            return env["parallel"]
        t = u(n)
        if t == "self.exclude":
            return env["exclude"]
        if isinstance(n, ast.Call) and u(n.func) == f"{tp}.matches":
            return env["match"]
        if _pat.is_(n, f"any({tp}.matches(V_f) for V_f in self.filters)", f"any([{tp}.matches(V_f) for V_f in self.filters])"):
            return env["match"]
        return None

    def on_stmt(s, env, b):
        if isinstance(s, ast.For) and is_self_attr(s.iter, "filters"):
            if not env["match"]:
                return "skip"
            out = decide(s.body, atom, env, b, on_stmt)
            if out.kind == "return":
                return out
            raise Unsupported("filter loop body does not return on a match")
        return None

    for exclude, parallel, match in itertools.product([False, True], repeat=3):
        env = {"exclude": exclude, "parallel": parallel, "match": match}
        inst = f"{'exclude' if exclude else 'include'}, {'parallel' if parallel else 'leaf'}, {'some filter matches' if match else 'no filter matches'}"
        try:
            out = decide(fo.body, atom, env, on_stmt=on_stmt)
            if out.kind != "return":
                chk.ob("O11.1", inst, False, fo, f"no decision ({out.text()})")
                continue
            got = bool_eval(out.value, lambda n: atom(n, env))
        except (Unsupported, UnknownAtom) as e:
            chk.unknown("O11.1", f"_filter_out_match is not a decision over (exclude, parallel, match): {e}", fo)
            continue
        want = ((not exclude) and (not match)) if parallel else (match == exclude)
        chk.ob("O11.1", inst, got == want, fo, f"removes: {got}; documented: {want}", key=f"{_L}:_filter_out_match:{exclude}|{parallel}|{match}")
    # mode selection, decided over (include list given?, exclude list given?): which list feeds the filters and which mode is set
    from sa import minieval
    idefs = local_defs(init)
    opt_role = {}
    for nm, d in idefs.items():
        if isinstance(d, ast.Call) and last_attr(d.func) == "opts":
            for key, role in (("include.tasks", "inc"), ("exclude.tasks", "exc")):
                if any(source.is_const(a_, key) for a_ in d.args):
                    opt_role[nm] = role
    chk.ob("O11.1", "include / exclude lists read from the options include.tasks / exclude.tasks", sorted(opt_role.values()) == ["exc", "inc"], init, f"{opt_role}")
    ffc = [c for c in walk_body(init) if isinstance(c, ast.Call) and last_attr(c.func) == ff.name]
    for inc_given, exc_given in itertools.product([True, False], repeat=2):
        lists = {"inc": ["i"] if inc_given else None, "exc": ["e"] if exc_given else None}

        def atom_i(n, env):
            if isinstance(n, ast.Call) and last_attr(n.func) == "opts":
                r_ = [role for key, role in (("include.tasks", "inc"), ("exclude.tasks", "exc")) if any(source.is_const(a_, key) for a_ in n.args)]
                return bool(lists[r_[0]]) if r_ else None
            try:
                return bool(minieval.ev(n, {nm: lists[r] for nm, r in opt_role.items()}))
            except minieval.CannotEval:
                return None

        try:
            out = decide(init.body, atom_i, {})
        except (Unsupported, UnknownAtom) as e:
            chk.unknown("O11.1", f"mode selection is not a decision over the two option lists: {e}", init)
            break
        bnd = getattr(out, "bindings", {})
        mode = [e_ for e_ in out.effects if isinstance(e_, ast.Assign) and any(is_self_attr(t_, "exclude") for t_ in e_.targets)]
        fed = source.inline_node(ffc[0].args[0], {}) if ffc and ffc[0].args else None
        fed_t = u(bnd[fed.id]) if isinstance(fed, ast.Name) and bnd.get(fed.id) is not None else (u(fed) if fed is not None else None)
        fed_role = next((r for key, r in (("include.tasks", "inc"), ("exclude.tasks", "exc")) if fed_t and f"'{key}'" in fed_t), None)
        want_mode, want_role = (False, "inc") if inc_given else (True, "exc")
        ok = len(mode) >= 1 and source.is_const(mode[-1].value, want_mode) and fed_role == want_role
        chk.ob("O11.1", f"include list {'given' if inc_given else 'absent'}, exclude list {'given' if exc_given else 'absent'} => {'include' if inc_given else 'exclude'} mode on that list", ok, init,
               f"exclude := {u(mode[-1].value) if mode else '?'}; filters built from {fed_t}", key=f"{_L}:TaskFilterTrackProcessor.__init__:mode:{inc_given}|{exc_given}")
    # spec parsing, decided on VALUES: the item is split on ':' and handed on verbatim (case preserved)
    if len(params_of(ff)) < 2:
        raise AnchorMissing("_filters_from_filtered_tasks(self, <items>): the items parameter")
    floops = [n for n in walk_body(ff) if isinstance(n, ast.For) and u(n.iter) == params_of(ff)[1]]
    if not floops:
        raise AnchorMissing("loop over the filter items in _filters_from_filtered_tasks")
    FL = floops[0]
    if not isinstance(FL.target, ast.Name):
        raise AnchorMissing("loop variable of the loop over the filter items in _filters_from_filtered_tasks")
    item = FL.target.id
    SAMPLES = [("Bulk-EU", ("TaskNameFilter", "Bulk-EU")), ("type:followerStats", ("TaskOpTypeFilter", "followerStats")), ("tag:regionEU", ("TaskTagFilter", "regionEU")),
               ("kind:x", ("raise", None)), ("a:b:c", ("raise", None)), ("Type:search", ("raise", None))]
    for text, (wk, wv) in SAMPLES:
        cur = {}

        def hook(s_, env, b_):
            cur["b"] = b_
            return None

        def val_env():
            env_ = {item: text}
            for _ in range(3):
                for k_, v_ in cur.get("b", {}).items():
                    if v_ is not None and k_ not in env_:
                        try:
                            env_[k_] = minieval.ev(v_, dict(env_))
                        except minieval.CannotEval:
                            pass
            return env_

        def atom_s(n, env):
            try:
                return bool(minieval.ev(n, val_env()))
            except minieval.CannotEval:
                return None

        try:
            out = decide(FL.body, atom_s, {}, on_stmt=hook)
        except (Unsupported, UnknownAtom) as e:
            chk.unknown("O11.1", f"spec parsing is not a decision over the split item: {e}", FL)
            break
        if wk == "raise":
            ok = out.kind == "raise"
            got = out.text()[:60]
        else:
            cons = [e_.args[0] for e_ in out.effects if isinstance(e_, ast.Call) and last_attr(e_.func) == "append" and e_.args and isinstance(e_.args[0], ast.Call)]
            got = "no filter"
            ok = False
            if len(cons) == 1 and cons[0].args:
                try:
                    v = minieval.ev(cons[0].args[0], val_env())
                    got = f"{last_attr(cons[0].func)}({v!r})"
                    ok = last_attr(cons[0].func) == wk and v == wv
                except minieval.CannotEval as e:
                    got = f"{short(cons[0], 60)} (not evaluable: {e})"
        chk.ob("O11.1", f"spec parsing: item {text!r} => {wk}{'(' + repr(wv) + ')' if wv else ''}", ok, FL, f"got {got}", key=f"{_L}:_filters_from_filtered_tasks:item:{text}")
    # filter classes: the single return compares the stored attribute with the right field of the task PARAMETER (either orientation)
    for cname, attr, pattern in (("TaskNameFilter", "name", "self.name == {0}.name"), ("TaskOpTypeFilter", "op_type", "self.op_type == {0}.operation.type"), ("TaskTagFilter", "tag_name", "self.tag_name in {0}.tags")):
        c = trk.cls(cname)
        m = trk.methods(c).get("matches")
        rets = [n for n in walk_body(m) if isinstance(n, ast.Return)] if m else []
        ok = len(rets) == 1 and len(params_of(m)) >= 2 and _pat.is_(rets[0].value, pattern.format(params_of(m)[1]))
        chk.ob("O11.1", f"{cname}.matches", ok, m if m else c, short(rets[0], 60) if rets else "")
        ini = trk.methods(c).get("__init__")
        ok = ini is not None and len(params_of(ini)) >= 2 and any(isinstance(n, ast.Assign) and is_self_attr(n.targets[0], attr) and u(n.value) == params_of(ini)[1] for n in walk_body(ini))
        chk.ob("O11.1", f"{cname} stores its argument", ok, ini if ini else c, "")
    # a parallel element matches iff some leaf matches: Parallel.matches EVALUATED on representative leaf results (no leaf, one, several, match first / last / never)
    PA = trk.cls("Parallel")
    pmt = trk.methods(PA).get("matches")
    ok, det = False, "Parallel.matches not found"
    if pmt is not None and len(params_of(pmt)) >= 2:
        fparam = params_of(pmt)[1]

        def leaf_call(n, var):
            return isinstance(n, ast.Call) and last_attr(n.func) == "matches" and isinstance(n.func.value, ast.Name) and n.func.value.id == var and len(n.args) == 1 and u(n.args[0]) == fparam

        def pm_eval(leaves):
            def atom_p(n, env):
                if env.get("var") is not None and leaf_call(n, env["var"]):
                    return env["leaf"]
                if isinstance(n, ast.Call) and dotted(n.func) in ("any", "all") and len(n.args) == 1 and isinstance(n.args[0], (ast.GeneratorExp, ast.ListComp)) and len(n.args[0].generators) == 1:
                    g = n.args[0].generators[0]
                    if is_self_attr(g.iter, "tasks") and isinstance(g.target, ast.Name) and not g.is_async:
                        vals = [bool_eval(n.args[0].elt, lambda x, v=v: atom_p(x, {"var": g.target.id, "leaf": v})) for v in leaves
                                if all(bool_eval(c_, lambda x, v=v: atom_p(x, {"var": g.target.id, "leaf": v})) for c_ in g.ifs)]
                        return any(vals) if dotted(n.func) == "any" else all(vals)
                return None

            jump_b = {}

            def on_stmt_p(s_, env, b_):
                if is_logging_stmt(s_):
                    return "skip"
                if isinstance(s_, (ast.Break, ast.Continue)):
                    jump_b["b"] = dict(b_)  # locals bound so far on the path that leaves the iteration here
                if env.get("var") is not None and isinstance(s_, ast.Assign) and len(s_.targets) == 1 and isinstance(s_.targets[0], ast.Name):
                    # a flag computed from the current leaf is fixed now (the leaf variable means something else in the next iteration)
                    def at_(x):
                        if isinstance(x, ast.Name) and b_.get(x.id) is not None:
                            return bool_eval(b_[x.id], at_)
                        return atom_p(x, env)

                    try:
                        b_[s_.targets[0].id] = ast.Constant(value=bool_eval(s_.value, at_))
                        return "skip"
                    except UnknownAtom:
                        return None
                if isinstance(s_, ast.For) and is_self_attr(s_.iter, "tasks") and isinstance(s_.target, ast.Name):
                    broke = False
                    for v in leaves:
                        o_ = decide(s_.body, atom_p, {"var": s_.target.id, "leaf": v}, b_, on_stmt_p)
                        if o_.kind == "return" and o_.value is not None:
                            o_.value = ast.Constant(value=bool_eval(o_.value, lambda x, v=v: atom_p(x, {"var": s_.target.id, "leaf": v})))  # a result computed from the current leaf is fixed here
                        if o_.kind in ("return", "raise"):
                            return o_
                        b_.update(jump_b.pop("b", {}) if o_.kind in ("break", "continue") else getattr(o_, "bindings", {}))
                        if o_.kind == "break":
                            broke = True
                            break
                    if s_.orelse and not broke:
                        o_ = decide(s_.orelse, atom_p, env, b_, on_stmt_p)
                        if o_.kind != "fallthrough":
                            return o_
                        b_.update(getattr(o_, "bindings", {}))
                    return "skip"
                return None

            o_ = decide(pmt.body, atom_p, {}, on_stmt=on_stmt_p)
            if o_.kind != "return" or o_.value is None:
                raise Unsupported(f"no boolean result ({o_.text()})")
            return bool_eval(o_.value, lambda x: atom_p(x, {}))

        try:
            wrong = [lv for lv in ([], [True], [False], [True, False], [False, True], [False, False], [True, True]) if pm_eval(lv) != any(lv)]
            ok, det = not wrong, ("" if not wrong else f"wrong result for leaf match results {wrong[0]}: {not any(wrong[0])}")
        except (Unsupported, UnknownAtom) as e:
            ok, det = False, f"Parallel.matches is not a decision over the leaf match results: {e}"
    chk.ob("O11.1", "a parallel element matches iff some leaf matches", ok, pmt if pmt is not None else PA, det)
    TK = trk.cls("Task")
    tinit = trk.methods(TK).get("__init__")
    if tinit is None or "tags" not in params_of(tinit):
        raise AnchorMissing("Task.__init__(..., tags, ...)")
    tag_stores = [n for n in walk_body(tinit) if isinstance(n, ast.Assign) and any(is_self_attr(t, "tags") for t in n.targets)]

    def tags_after_init(value):
        """self.tags after Task.__init__ for one concrete `tags` argument, EVALUATED (whatever the shape / polarity / arm order of the normalising code)."""
        cur_t = {}

        def env_t(bnd):
            env_ = {"tags": value}
            for _ in range(3):
                for k_, v_ in bnd.items():
                    if v_ is not None and k_ not in env_:
                        try:
                            env_[k_] = minieval.ev(v_, dict(env_))
                        except minieval.CannotEval:
                            pass
            return env_

        def hook_t(s_, env, b_):
            cur_t["b"] = b_
            return "skip" if is_logging_stmt(s_) else None

        def atom_t(n, env):
            try:
                return bool(minieval.ev(n, env_t(cur_t.get("b", {}))))
            except minieval.CannotEval:
                return None

        o_ = decide(tinit.body, atom_t, {}, on_stmt=hook_t)
        st = [e_ for e_ in o_.effects if isinstance(e_, ast.Assign) and any(is_self_attr(t, "tags") for t in e_.targets)]
        if o_.kind not in ("fallthrough", "return") or not st:
            raise Unsupported(f"no store to self.tags for tags={value!r}")
        return minieval.ev(st[-1].value, env_t(getattr(o_, "bindings", {})))

    try:
        got_t = tags_after_init("regionEU")
        wrap = isinstance(got_t, (list, tuple, set)) and list(got_t) == ["regionEU"]
        det_t = "" if wrap else f"tags='regionEU' is stored as {got_t!r}: tags may stay a plain string: `tag in task.tags` becomes a substring test"
    except (Unsupported, UnknownAtom, minieval.CannotEval):
        # not evaluable: fall back to the guard facts of the wrapping store (polarity-insensitive)
        wrap = any(isinstance(n.value, ast.List) and len(n.value.elts) == 1 and u(n.value.elts[0]) == "tags" and _pat.guarded(n, "isinstance(tags, str)", stop=tinit) is not None for n in tag_stores)
        det_t = "" if wrap else "tags may stay a plain string: `tag in task.tags` becomes a substring test"
    chk.ob("O11.1", "a single tag given as a string is wrapped into a list (tag filter is membership, not substring)", bool(wrap), tag_stores[0] if tag_stores else tinit, det_t)
    tm = trk.methods(TK).get("matches")
    ok = tm is not None and any(isinstance(n, ast.Return) and isinstance(n.value, ast.Call) and last_attr(n.value.func) == "matches" and u(n.value.args[0]) == "self" for n in walk_body(tm))
    chk.ob("O11.1", "Task.matches delegates to the filter", ok, tm if tm is not None else TK, "")

    # ---- O11.2 no empty parallel survives ----------------------------------------------------------------------------------------------------------
    chk.rule("O11.2", "every site that can shrink a parallel element is followed, on every path that keeps the element, by an emptiness test of that element whose empty edge removes it from the challenge; "
             "the schema forbids empty `tasks` on load", 3,
             "--exclude-tasks matching every task of a parallel element (also through several filters that only together cover it) leaves an empty parallel element in the schedule")

    def strip_sel(e):
        """the collection expression under slices / list() / reversed() / .copy() wrappers (what KIND of object is iterated, not how much of it)."""
        while True:
            if isinstance(e, ast.Subscript):
                e = e.value
            elif isinstance(e, ast.Call) and dotted(e.func) in ("list", "reversed", "sorted", "tuple", "iter") and len(e.args) == 1:
                e = e.args[0]
            elif isinstance(e, ast.Call) and isinstance(e.func, ast.Attribute) and e.func.attr == "copy" and not e.args:
                e = e.func.value
            else:
                return e

    def is_challenge_receiver(c):
        """the receiver of this remove_task call is a CHALLENGE (not a schedule element), decided by role: a parameter called `challenge`, the loop variable of a loop over
        `<x>.challenges`, or a name whose `.schedule` is iterated in the same function (only challenges have a schedule that is iterated element-wise)."""
        r_ = c.func.value
        if not isinstance(r_, ast.Name):
            return False
        fn_ = source.enclosing_func(c)
        if fn_ is None:
            return False
        if r_.id == "challenge" and r_.id in params_of(fn_):
            return True
        for a in source.ancestors(c):
            if isinstance(a, ast.For) and isinstance(a.target, ast.Name) and a.target.id == r_.id and isinstance(strip_sel(a.iter), ast.Attribute) and strip_sel(a.iter).attr == "challenges":
                return True
        return any(isinstance(n, (ast.For, ast.comprehension)) and isinstance(strip_sel(n.iter), ast.Attribute) and strip_sel(n.iter).attr == "schedule" and isinstance(strip_sel(n.iter).value, ast.Name)
                   and strip_sel(n.iter).value.id == r_.id for n in ast.walk(fn_))

    shrink = [c for c in package_calls(repo, "remove_task") if isinstance(c.func, ast.Attribute) and not is_challenge_receiver(c)]
    shrink = [c for c in shrink if source.enclosing_class(c) is not None and source.enclosing_class(c).name != "Parallel"]
    if not shrink:
        raise AnchorMissing("call site removing a sub-task from a parallel element")
    for c in shrink:
        fn = source.enclosing_func(c)
        gfn = cfg_of(fn)
        obj = u(c.func.value)
        # the enclosing loop over the schedule
        outer = [a for a in source.ancestors(c) if isinstance(a, ast.For) and isinstance(a.target, ast.Name) and a.target.id == obj]
        if not outer:
            chk.ob("O11.2", f"{source.qualname(c)}: shrink of {obj}", False, c, "shrink site is not inside a loop over the schedule elements")
            continue
        OL = outer[0]
        parallel_tests = [p_.format(obj) for p_ in PARALLEL_TESTS]

        def removing(arm):
            return [x for s in arm for x in ast.walk(s) if isinstance(x, ast.Call) and last_attr(x.func) in ("append", "remove_task", "remove") and x.args and u(x.args[0]) == obj]

        # an emptiness test is an `if` one of whose ARMS (true arm: the conjuncts of the test; false arm: the conjuncts of its negation) is entered exactly when the element is an
        # emptied parallel element, and that arm removes the element -- whichever arm it is and however the test is written
        tests, arms = [], {}
        for n in ast.walk(OL):
            if isinstance(n, ast.If):
                for arm, fs in ((n.body, conjuncts(n.test)), (n.orelse, conjuncts(negate(n.test)))):
                    kinds = [emptiness_test(a, obj) for a in fs]
                    if arm and "empty" in kinds and all(k == "empty" or _pat.is_(a, *parallel_tests) for a, k in zip(fs, kinds)) and removing(arm):
                        tests.append(n)
                        arms[id(n)] = arm
                        break
        cn = gfn.node_of(c)
        head = gfn.node_of(OL)
        tn = [gfn.node_of(t) for t in tests]
        # every path from the shrink to the next outer iteration passes the emptiness test
        ok = bool(tn) and head.id not in gfn.reachable([gfn.nodes[y] for y, lab in gfn.succ[cn.id] if gfn.normal_edge(cn.id, y, lab)], avoid=tn, edge_ok=gfn.normal_edge)
        chk.ob("O11.2", f"{source.qualname(c)}: emptiness test after shrinking {obj}", ok, c,
               f"{len(tests)} emptiness test(s) with a removing empty-edge" + ("" if ok else "; a path keeps a possibly emptied parallel element in the schedule"),
               key=f"{_L}:{source.qualname(c)}:empty-check-after-shrink")
        # the collected elements are really removed from the challenge afterwards
        if tests:
            coll = [x for x in removing(arms[id(tests[0])]) if last_attr(x.func) == "append"]
            if coll:
                lst = u(coll[0].func.value)
                rm = [n for n in walk_body(fn) if isinstance(n, ast.For) and u(n.iter) == lst and any(isinstance(x, ast.Call) and last_attr(x.func) == "remove_task" for x in ast.walk(n))]
                chk.ob("O11.2", "collected elements are removed from the challenge", bool(rm), coll[0], "")
    try:
        schema = json.loads(repo.text(_S))
        found = []

        def walk(o, path=""):
            if isinstance(o, dict):
                if "tasks" in o.get("properties", {}):
                    found.append((path, o["properties"]["tasks"].get("minItems")))
                for k, v in o.items():
                    walk(v, path + "/" + k)
            elif isinstance(o, list):
                for i, v in enumerate(o):
                    walk(v, path + f"/{i}")

        walk(schema)
        ok = bool(found) and all(mi is not None and mi >= 1 for _, mi in found)
        chk.ob("O11.2", "schema: parallel.tasks has minItems >= 1", ok, _S, f"{found}")
    except ValueError as e:
        chk.unknown("O11.2", f"track schema does not parse: {e}", _S)

    # ---- O11.3 filter only removes ------------------------------------------------------------------------------------------------------------------------
    chk.rule("O11.3", "the processor performs no attribute store on task/operation objects, mutates schedules only through remove_task, and removes after iterating (never while iterating the same list)", 3,
             "surviving tasks lose properties / order changes / tasks are skipped by mutation during iteration")
    stores = [n for f in (fo, oa) for n in walk_body(f) if isinstance(n, (ast.Assign, ast.AugAssign)) and any(isinstance(t, (ast.Attribute, ast.Subscript)) for t in (n.targets if isinstance(n, ast.Assign) else [n.target]))]
    chk.ob("O11.3", "no attribute/item stores in the filter", not stores, stores[0] if stores else oa, short(stores[0], 60) if stores else "")
    muts = [n for f in (fo, oa) for n in walk_body(f) if isinstance(n, ast.Call) and last_attr(n.func) in ("remove", "pop", "insert", "sort", "reverse", "clear", "extend", "prepend_tasks", "__setitem__")]
    chk.ob("O11.3", "no mutation other than remove_task / local appends", not muts, muts[0] if muts else oa, "")
    go = cfg_of(oa)
    for c in source.calls_in(oa, attr="remove_task"):
        recv = u(c.func.value)
        loops = [a for a in source.ancestors(c) if isinstance(a, ast.For)]
        bad = False
        for lp in loops:
            it = u(lp.iter)
            if it in (f"{recv}.schedule", recv, f"{recv}.tasks"):
                bad = True
        chk.ob("O11.3", f"{short(c, 40)} not while iterating {recv}", not bad, c, "")
    # challenge.remove_task / Parallel.remove_task are plain list removals (order preserved)
    for cname in ("Challenge", "Parallel"):
        c = trk.cls(cname)
        rt = trk.methods(c).get("remove_task")
        rb = [s_ for s_ in rt.body if not is_logging_stmt(s_) and not (isinstance(s_, ast.Expr) and isinstance(s_.value, ast.Constant))] if rt is not None else []  # logging / docstring do not count
        ok = rt is not None and len(rb) == 1 and isinstance(rb[0], ast.Expr) and isinstance(rb[0].value, ast.Call) and last_attr(rb[0].value.func) == "remove"
        chk.ob("O11.3", f"{cname}.remove_task is a plain list removal", ok, rt if rt else c, "")
    # all challenges are filtered; leaves of kept parallels are filtered individually
    chl = [n for n in walk_body(oa) if isinstance(n, ast.For) and u(n.iter).endswith(".challenges")]
    jumps = [x for n in chl for x in ast.walk(n) if isinstance(x, ast.Return) or (isinstance(x, ast.Break) and source.enclosing(x, (ast.For, ast.While)) is n)]
    ok = len(chl) == 1 and not jumps
    chk.ob("O11.3", "every challenge is filtered (the loop over the challenges runs to the end)", ok, jumps[0] if jumps else oa,
           "" if ok else ("the loop over the challenges is left early: later challenges keep their unfiltered schedule" if chl else "no loop over the challenges"),
           key=f"{_L}:TaskFilterTrackProcessor.on_after_load_track:all-challenges")
    early = [n for n in walk_body(oa) if isinstance(n, ast.Return) and guards(n)]
    ok = all(_pat.guarded(n, "not self.filters") is not None for n in early)
    chk.ob("O11.3", "early return only without filters", ok, early[0] if early else oa, "")

    # the ONLY reason to remove an element is the match routine: the statements that queue an element for removal are written under exactly one explicit condition, the call of
    # _filter_out_match on that very element (the emptied-parallel clean-up, keyed by the emptiness test, is decided by O11.2)
    from sa import pat as _p11
    n_q = 0
    for lp in [n for n in walk_body(oa) if isinstance(n, ast.For) and isinstance(n.target, ast.Name)]:
        lv = lp.target.id
        for c in [c for c in ast.walk(lp) if isinstance(c, ast.Call) and last_attr(c.func) == "append" and c.args and u(c.args[0]) == lv and source.enclosing(c, ast.For) is lp]:
            fs = _p11.fact_nodes(c, stop=lp, path_sensitive=False)
            if any(isinstance(f_, ast.Call) and last_attr(f_.func) == "isinstance" for f_ in fs) or any("len(" in u(f_) for f_ in fs):
                continue  # the emptiness clean-up
            n_q += 1
            ok = len(fs) == 1 and _p11.is_(fs[0], f"self.{fo.name}({lv})")
            chk.ob("O11.3", f"`{lv}` is queued for removal iff the match routine says so (no further condition)", ok, c, f"written under {[u(f_) for f_ in fs]}" +
                   ("" if ok else " — an element the filters select for removal stays in the schedule (or one they keep is removed)"), key=f"{_L}:TaskFilterTrackProcessor.on_after_load_track:queue:{lv}")
    chk.ob("O11.3", "removal queues located (top-level elements and leaves)", n_q >= 2, oa, f"{n_q} site(s)")
    # the match decision is taken per OBJECT: tasks compare equal when name / operation / settings agree although their tags differ, so a memoised matches() (lru_cache, cache)
    # replays one task's decision for another
    for cname in ("Task", "Parallel", "TaskNameFilter", "TaskOpTypeFilter", "TaskTagFilter"):
        m_ = trk.methods(trk.cls(cname)).get("matches")
        if m_ is None:
            continue
        decs = [dotted(d_.func if isinstance(d_, ast.Call) else d_) or "" for d_ in m_.decorator_list]
        memo = [d_ for d_ in decs if d_.split(".")[-1] in ("lru_cache", "cache", "cached_property", "memoize")]
        chk.ob("O11.1", f"{cname}.matches is evaluated for every object (not memoised by value)", not memo, m_, "" if not memo else f"@{memo[0]}: the cache key uses __eq__/__hash__, which ignore tags",
               key=f"esrally/track/track.py:{cname}.matches:not-memoised")

    # ---- O11.4 consumer agreement ----------------------------------------------------------------------------------------------------------------------------
    chk.rule("O11.4", "the driver can execute and report every remaining step: one progress entry per join point (C02/O2.1) and at least one client row even for an emptied schedule", 2,
             "filters leaving an empty schedule / empty element crash the driver at start or in progress reporting")
    from rules.C02 import step_entry_agreement

    step_entry_agreement(chk, drv, "O11.4")
    from rules.C02 import client_floor_rule

    client_floor_rule(chk, "O11.4", drv)

    # ---- O11.5 removing the completing leaf is handled ---------------------------------------------------------------------------------------------------------
    chk.rule("O11.5", "the code that removes a leaf from a parallel element (the function holding the shrink site and everything it calls on the processor, the element or the leaf) "
             "consults the leaf's completing role - the Task attribute the track reader derives from `completed-by` and the allocator turns into the join point's completing clients - "
             "so that removing the completing leaf can be refused, transferred or extended to the siblings that only end with their parent", 1,
             "a filter that removes the task named by completed-by but keeps a sibling without an end of its own (warmup-time-period only, infinite parameter source): nothing ever "
             "completes the element, the filtered race hangs at that step and reports nothing")
    role = completing_role(repo, ldr, tinit)
    # the allocator really keys the completion of the element on this attribute (otherwise the role found above is not the one that ends the element)
    if not any(isinstance(n, ast.Attribute) and n.attr == role and isinstance(n.ctx, ast.Load) for n in ast.walk(drv.tree)):
        raise AnchorMissing(f"driver never reads the completing role `{role}` of a task")
    # candidate callees by (unique-enough) name: methods of the processor, of the parallel element and of the leaf class, and the loader's module-level functions
    cands = {}
    for mod_, cls_ in ((ldr, P), (trk, PA), (trk, TK)):
        for nm, m_ in mod_.methods(cls_).items():
            if not (nm.startswith("__") and nm.endswith("__")):
                cands.setdefault(nm, []).append(m_)
    for n in ldr.tree.body:
        if isinstance(n, source.FUNC_TYPES):
            cands.setdefault(n.name, []).append(n)

    def closure(root):
        seen, todo = [], [root]
        while todo:
            f_ = todo.pop()
            if any(f_ is s_ for s_ in seen):
                continue
            seen.append(f_)
            for x in ast.walk(f_):
                if isinstance(x, ast.Call) and last_attr(x.func) in cands:
                    todo.extend(cands[last_attr(x.func)])
        return seen

    def role_refs(f_):
        out = []
        for x in ast.walk(f_):
            named = (isinstance(x, ast.Attribute) and x.attr == role) or (
                isinstance(x, ast.Call) and dotted(x.func) in ("getattr", "hasattr", "setattr") and len(x.args) >= 2 and source.is_const(x.args[1], role))
            if named and x is not f_ and not is_logging_stmt(source.enclosing_stmt(x)):
                out.append(x)
        return out

    hook_slice = closure(oa)
    for c in shrink:
        fn = source.enclosing_func(c)
        sl = closure(fn)
        refs = [r_ for f_ in sl for r_ in role_refs(f_)]
        root = oa if any(fn is f_ for f_ in hook_slice) else fn  # the finding is keyed by the processor hook that performs the removal, wherever a helper puts the call itself
        chk.ob("O11.5", f"{source.qualname(c)}: removing a leaf of {u(c.func.value)} consults the leaf's completing role `{role}`", bool(refs), refs[0] if refs else c,
               (f"{len(refs)} reference(s), first in {source.qualname(refs[0])}" if refs else
                f"no reference to `{role}` in {', '.join(sorted(source.qualname(f_) for f_ in sl))}: the leaf named by completed-by is removed like any other leaf and nothing else happens - "
                "the join point of the element gets no completing client, remaining siblings that only end with their parent never end"),
               key=f"{_L}:{source.qualname(root)}:completing-leaf-removed")


def completing_role(repo, ldr, tinit):
    """Name of the Task attribute that marks THE task completing its parallel element, derived by data flow: a construction of Task in the loader passes, for some constructor
    parameter K, a comparison `<name of the task> == <p>` where <p> is a parameter of the constructing function that one of its callers feeds from the value read under the
    track key "completed-by"; Task.__init__ stores K in `self.<attr>`."""
    for call in [c for c in ast.walk(ldr.tree) if isinstance(c, ast.Call) and last_attr(c.func) == "Task"]:
        fn = source.enclosing_func(call)
        if fn is None:
            continue
        fparams = set(params_of(fn)) | {a.arg for a in fn.args.kwonlyargs}
        defs = local_defs(fn)
        callers = [c for c in package_calls(repo, fn.name) if c is not call]
        for k_, val in source.bind_args(call, tinit).items():
            v = source.inline_node(val, defs)
            if not (isinstance(v, ast.Compare) and len(v.ops) == 1 and isinstance(v.ops[0], ast.Eq)):
                continue
            sides = [v.left, v.comparators[0]]
            carrier = [s_ for s_ in sides if isinstance(s_, ast.Name) and s_.id in fparams]
            other = [s_ for s_ in sides if not (isinstance(s_, ast.Name) and s_.id in fparams)]
            if len(carrier) != 1 or len(other) != 1 or isinstance(other[0], ast.Constant):
                continue  # `<p> == "any"` is the any-task-completes role, not THE completing task
            fed = False
            for cc in callers:
                cf = source.enclosing_func(cc)
                arg = source.bind_args(cc, fn).get(carrier[0].id)
                if arg is None or cf is None:
                    continue
                av = source.inline_node(arg, local_defs(cf))
                fed = fed or any(source.is_const(x, "completed-by") for x in ast.walk(av))
            if not fed:
                continue
            for n in walk_body(tinit):
                if isinstance(n, ast.Assign) and len(n.targets) == 1 and is_self_attr(n.targets[0]) and any(isinstance(x, ast.Name) and x.id == k_ for x in ast.walk(n.value)):
                    return n.targets[0].attr
    raise AnchorMissing("the Task attribute set from `<task name> == <completed-by>` (completing role) could not be derived from the track reader / Task.__init__")


from sa.selftest import V  # noqa: E402

VARIANTS = [
    V("F4: emptied parallel stays", "break", _L, "                    # a parallel element without any remaining sub-task cannot be run\n                    if isinstance(task, Parallel) and len(task.tasks) == 0:\n                        tasks_to_remove.append(task)\n", "", "O11.2"),
    V("match arm returns not exclude", "break", _L, "                return self.exclude\n        return not self.exclude", "                return not self.exclude\n        return not self.exclude", "O11.1"),
    V("parallel exclude special case dropped", "break", _L, "                if hasattr(task, \"tasks\") and self.exclude:\n                    return False\n", "", "O11.1"),
    V("type: mapped to the name filter", "break", _L, "filters.append(track.TaskOpTypeFilter(spec[1]))", "filters.append(track.TaskNameFilter(spec[1]))", "O11.1"),
    V("mutate while iterating", "break", _L, "                    for leaf_task in task:\n                        if self._filter_out_match(leaf_task):\n                            leafs_to_remove.append(leaf_task)", "                    for leaf_task in task:\n                        if self._filter_out_match(leaf_task):\n                            task.remove_task(leaf_task)", "O11."),
    V("filter sets task.clients", "break", _L, "            for task in tasks_to_remove:\n                self.logger.info(\"Removing task [%s] from challenge [%s] due to task filter.\", task, challenge)", "            for task in tasks_to_remove:\n                task.clients = 0\n                self.logger.info(\"Removing task [%s] from challenge [%s] due to task filter.\", task, challenge)", "O11.3"),
    V("seed m2: tags not normalised", "break", _T, "        if isinstance(tags, str):\n            self.tags = [tags]\n        elif tags:\n            self.tags = tags\n        else:\n            self.tags = []", "        self.tags = tags if tags else []", "O11.1"),
    V("seed m3: client floor lost", "break", _D, "        max_clients = 1\n        for task in self.schedule:\n            max_clients = max(max_clients, task.clients)\n        return max_clients", "        return max((task.clients for task in self.schedule), default=0)", "O11.4"),
    V("tag filter substring on name", "break", _T, "        return self.tag_name in task.tags", "        return self.tag_name in task.name", "O11.1"),
    V("parallel matches all", "break", _T, "        for task in self.tasks:\n            if task.matches(task_filter):\n                return True\n        return False", "        for task in self.tasks:\n            if not task.matches(task_filter):\n                return False\n        return True", "O11.1"),
    V("only first challenge filtered", "break", _L, "        for challenge in track.challenges:\n            # don't modify the schedule while iterating over it\n            tasks_to_remove = []\n            for task in challenge.schedule:\n                if self._filter_out_match(task):", "        for challenge in track.challenges[:1]:\n            # don't modify the schedule while iterating over it\n            tasks_to_remove = []\n            for task in challenge.schedule:\n                if self._filter_out_match(task):", "O11.3"),
    # preserving
    V("isinstance instead of hasattr", "keep", _L, "                if hasattr(task, \"tasks\") and self.exclude:", "                if isinstance(task, Parallel) and self.exclude:"),
    V("emptiness via not task.tasks", "keep", _L, "                    if isinstance(task, Parallel) and len(task.tasks) == 0:", "                    if isinstance(task, Parallel) and not task.tasks:"),
    V("emptiness test in the else arm, flipped comparison", "keep", _L, "                    if isinstance(task, Parallel) and len(task.tasks) == 0:\n                        tasks_to_remove.append(task)\n", "                    if not isinstance(task, Parallel) or 0 < len(task.tasks):\n                        pass\n                    else:\n                        tasks_to_remove.append(task)\n"),
    V("else arm keeps the emptied element", "break", _L, "                    if isinstance(task, Parallel) and len(task.tasks) == 0:\n                        tasks_to_remove.append(task)\n", "                    if not isinstance(task, Parallel) or len(task.tasks) == 0:\n                        pass\n                    else:\n                        tasks_to_remove.append(task)\n", "O11.2"),
    V("parallel matches via any()", "keep", _T, "        for task in self.tasks:\n            if task.matches(task_filter):\n                return True\n        return False", "        return any(task.matches(task_filter) for task in self.tasks)"),
    V("parallel matches via all()", "break", _T, "        for task in self.tasks:\n            if task.matches(task_filter):\n                return True\n        return False", "        return all(task.matches(task_filter) for task in self.tasks)", "O11.1"),
    V("parallel matches via flag and break", "keep", _T, "        for task in self.tasks:\n            if task.matches(task_filter):\n                return True\n        return False", "        found = False\n        for task in self.tasks:\n            if task.matches(task_filter):\n                found = True\n                break\n        return found"),
    V("parallel matches: first leaf only", "break", _T, "        for task in self.tasks:\n            if task.matches(task_filter):\n                return True\n        return False", "        for task in self.tasks:\n            return task.matches(task_filter)\n        return False", "O11.1"),
    V("tags normalised in one conditional expression", "keep", _T, "        if isinstance(tags, str):\n            self.tags = [tags]\n        elif tags:\n            self.tags = tags\n        else:\n            self.tags = []", "        self.tags = [tags] if isinstance(tags, str) else (tags if tags else [])"),
    V("string tags no longer wrapped (wrong type tested)", "break", _T, "        if isinstance(tags, str):\n            self.tags = [tags]\n        elif tags:", "        if isinstance(tags, list):\n            self.tags = [tags]\n        elif tags:", "O11.1"),
    V("name filter comparison flipped", "keep", _T, "        return self.name == task.name", "        return task.name == self.name"),
    V("match loop as any()", "keep", _L, "        for f in self.filters:\n            if task.matches(f):\n                if hasattr(task, \"tasks\") and self.exclude:\n                    return False\n                return self.exclude\n        return not self.exclude", "        if any(task.matches(f) for f in self.filters):\n            if self.exclude and hasattr(task, \"tasks\"):\n                return False\n            return self.exclude\n        return not self.exclude"),
    V("seed C02-m7: max with default 1 (the default only covers the EMPTY schedule, not a schedule of empty elements)", "break", _D, "        max_clients = 1\n        for task in self.schedule:\n            max_clients = max(max_clients, task.clients)\n        return max_clients", "        return max((task.clients for task in self.schedule), default=1)", "O11.4"),
    V("explicit floor around the max", "keep", _D, "        max_clients = 1\n        for task in self.schedule:\n            max_clients = max(max_clients, task.clients)\n        return max_clients", "        return max(1, max((task.clients for task in self.schedule), default=0))"),
    # O11.5 (F53 is a KNOWN finding at TaskFilterTrackProcessor.on_after_load_track: the battery is run with that entry listed). Any OTHER site that removes leaves without consulting
    # the completing role is still reported; respellings of the reader / of Task.__init__ keep the derived role (and with it the verdict and its key).
    V("a second processor removes leaves of a parallel element without consulting the completing role", "break", _L,
      "                if isinstance(task, Parallel):\n                    challenge.serverless_info.append(f\"Treating parallel task in challenge [{challenge}] as public.\")\n",
      "                if isinstance(task, Parallel):\n                    for leaf in [l for l in task if self._is_filtered_task(l.operation)]:\n                        task.remove_task(leaf)\n", "O11.5"),
    [V("completing role computed into a local first, comparison flipped", "keep", _L, "            completes_parent=(task_name == completed_by_name),\n", "            completes_parent=is_completing,\n"),
     V("(second edit of the same variant: the local)", "keep", _L, "        task = track.Task(\n            name=task_name,", "        is_completing = completed_by_name == task_name\n        task = track.Task(\n            name=task_name,")],
    V("Task stores the completing role through bool()", "keep", _T, "        self.completes_parent = completes_parent\n", "        self.completes_parent = bool(completes_parent)\n"),
]
