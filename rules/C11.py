"""C11 — task filters keep exactly the selected tasks and leave a runnable track (DESIGN.md section 4, C11)."""
from __future__ import annotations

import ast
import itertools
import json

from sa import minieval
from sa import pat as _pat
from sa import source
from sa.cfg import cfg_of, conjuncts, guards, negate
from sa.classes import is_logging_call, is_logging_stmt
from sa.source import AnchorMissing, dotted, is_self_attr, last_attr, local_defs, package_calls, params_of, short, u, walk_body
from sa.sym import UnknownAtom, bool_eval, oriented
from sa.tables import Outcome, Unsupported, decide, const_value

_L = "esrally/track/loader.py"
_T = "esrally/track/track.py"
_D = "esrally/driver/driver.py"
_S = "esrally/resources/track-schema.json"


def emptiness_test(test, obj_text):
    """True-polarity meaning of an emptiness test on obj: returns 'empty' / 'nonempty' / None."""
    t = test
    neg = False
    while isinstance(t, ast.UnaryOp) and isinstance(t.op, ast.Not):
        neg = not neg
        t = t.operand
    forms_obj = {obj_text, f"{obj_text}.tasks", f"list({obj_text})"}
    if u(t) in forms_obj:
        return "empty" if neg else "nonempty"
    is_len = lambda x: isinstance(x, ast.Call) and dotted(x.func) == "len" and len(x.args) == 1 and u(x.args[0]) in forms_obj  # noqa: E731
    c = oriented(t, is_len)  # the len(...) operand on the left, whichever way round the comparison is written
    if c:
        l, op, r = c
        if isinstance(r, ast.Constant) and r.value in (0, 1) and not isinstance(r.value, bool):
            k = r.value
            res = {("==", 0): "empty", (">", 0): "nonempty", ("!=", 0): "nonempty", ("<", 1): "empty", (">=", 1): "nonempty", ("<=", 0): "empty"}.get((op, k))
            if res:
                return ({"empty": "nonempty", "nonempty": "empty"}[res]) if neg else res
    return None


def dnf(e, limit=16):
    """disjunctive normal form of a condition as a list of conjunct lists (negations pushed in over and / or); None if it grows beyond `limit` disjuncts"""
    if isinstance(e, ast.UnaryOp) and isinstance(e.op, ast.Not) and isinstance(e.operand, ast.BoolOp):
        e = negate(e.operand)
    if isinstance(e, ast.BoolOp) and isinstance(e.op, ast.Or):
        out = []
        for v in e.values:
            d = dnf(v, limit)
            if d is None:
                return None
            out += d
        return out if len(out) <= limit else None
    if isinstance(e, ast.BoolOp) and isinstance(e.op, ast.And):
        out = [[]]
        for v in e.values:
            d = dnf(v, limit)
            if d is None:
                return None
            out = [a + b for a in out for b in d]
            if len(out) > limit:
                return None
        return out
    return [[e]]


def beval(e, at):
    """bool_eval that also reads conditional expressions and short-circuits"""
    v = at(e)
    if v is not None:
        return v
    if isinstance(e, ast.IfExp):
        return beval(e.body if beval(e.test, at) else e.orelse, at)
    if isinstance(e, ast.BoolOp):
        for x in e.values:
            if beval(x, at) != isinstance(e.op, ast.And):
                return not isinstance(e.op, ast.And)
        return isinstance(e.op, ast.And)
    if isinstance(e, ast.UnaryOp) and isinstance(e.op, ast.Not):
        return not beval(e.operand, at)
    return bool_eval(e, at)


def scan_eval(body, is_coll, is_elem_test, base_atom, vec):
    """Boolean returned by a routine that scans a collection - loop with return, flag and break / continue, for-else, any() / all() over a generator -, EVALUATED on the vector
    `vec` of per-element test results. is_coll(expr): the iterated expression is the collection; is_elem_test(node, var): node is the per-element test for the loop variable var;
    base_atom(node): truth of any other atomic condition (or None)."""
    def atom_p(n, env):
        if env.get("var") is not None and is_elem_test(n, env["var"]):
            return env["leaf"]
        if isinstance(n, ast.Call) and dotted(n.func) in ("any", "all") and len(n.args) == 1 and isinstance(n.args[0], (ast.GeneratorExp, ast.ListComp)) and len(n.args[0].generators) == 1:
            g = n.args[0].generators[0]
            if is_coll(g.iter) and isinstance(g.target, ast.Name) and not g.is_async:
                vals = [beval(n.args[0].elt, lambda x, v=v: atom_p(x, {"var": g.target.id, "leaf": v})) for v in vec
                        if all(beval(c_, lambda x, v=v: atom_p(x, {"var": g.target.id, "leaf": v})) for c_ in g.ifs)]
                return any(vals) if dotted(n.func) == "any" else all(vals)
        if isinstance(n, ast.Call) and dotted(n.func) in ("any", "all") and len(n.args) == 1 and isinstance(n.args[0], ast.Call) and dotted(n.args[0].func) == "map" and len(n.args[0].args) == 2 \
                and not n.args[0].keywords and is_coll(n.args[0].args[1]):
            # any(map(<element>.matches, <collection>)) / any(map(lambda v: <test on v>, <collection>)): the comprehension written with map
            fn_ = n.args[0].args[0]
            if isinstance(fn_, ast.Lambda) and len(fn_.args.args) == 1 and not (fn_.args.vararg or fn_.args.kwarg or fn_.args.kwonlyargs or fn_.args.defaults):
                var_, elt_ = fn_.args.args[0].arg, fn_.body
            elif isinstance(fn_, ast.Attribute):
                var_ = "v__map"
                elt_ = ast.copy_location(ast.Call(func=fn_, args=[ast.Name(id=var_, ctx=ast.Load())], keywords=[]), fn_)
            else:
                return base_atom(n)
            vals = [beval(elt_, lambda x, v=v: atom_p(x, {"var": var_, "leaf": v})) for v in vec]
            return any(vals) if dotted(n.func) == "any" else all(vals)
        return base_atom(n)

    def bound(b_, at):
        """atoms read through the locals bound so far (a flag / a partial result assigned before it is returned or tested)"""
        def at_(x):
            if isinstance(x, ast.Name) and b_.get(x.id) is not None:
                return beval(b_[x.id], at_)
            return at(x)
        return at_

    jump_b = {}

    def on_stmt_p(s_, env, b_):
        if is_logging_stmt(s_):
            return "skip"
        if isinstance(s_, (ast.Break, ast.Continue)):
            jump_b["b"] = dict(b_)  # locals bound so far on the path that leaves the iteration here
        if env.get("var") is not None and isinstance(s_, ast.Assign) and len(s_.targets) == 1 and isinstance(s_.targets[0], ast.Name):
            # a flag computed from the current element is fixed now (the loop variable means something else in the next iteration)
            def at_(x):
                if isinstance(x, ast.Name) and b_.get(x.id) is not None:
                    return beval(b_[x.id], at_)
                return atom_p(x, env)

            try:
                b_[s_.targets[0].id] = ast.Constant(value=beval(s_.value, at_))
                return "skip"
            except UnknownAtom:
                return None
        if isinstance(s_, ast.For) and is_coll(s_.iter) and isinstance(s_.target, ast.Name):
            broke = False
            for v in vec:
                o_ = decide(s_.body, atom_p, {"var": s_.target.id, "leaf": v}, b_, on_stmt_p)
                if o_.kind == "return" and o_.value is not None:
                    o_.value = ast.Constant(value=beval(o_.value, bound(getattr(o_, "bindings", b_), lambda x, v=v: atom_p(x, {"var": s_.target.id, "leaf": v}))))  # a result computed from the current element is fixed here
                if o_.kind in ("return", "raise"):
                    return o_
                b_.update(jump_b.pop("b", {}) if o_.kind in ("break", "continue") else getattr(o_, "bindings", {}))
                if o_.kind == "break":
                    broke = True
                    break
            if s_.orelse and not broke:
                o_ = decide(s_.orelse, atom_p, env, b_, on_stmt_p)
                if o_.kind != "fallthrough":
                    return o_
                b_.update(getattr(o_, "bindings", {}))
            return "skip"
        return None

    o_ = decide(body, atom_p, {}, on_stmt=on_stmt_p)
    if o_.kind != "return" or o_.value is None:
        raise Unsupported(f"no boolean result ({o_.text()})")
    return beval(o_.value, bound(getattr(o_, "bindings", {}), lambda x: atom_p(x, {})))


VECS = ([], [True], [False], [True, False], [False, True], [False, False], [True, True])


def strip_sel(e):
    """the collection expression under slices / list() / reversed() / .copy() wrappers (what KIND of object is iterated, not how much of it)."""
    while True:
        if isinstance(e, ast.Subscript):
            e = e.value
        elif isinstance(e, ast.Call) and dotted(e.func) in ("list", "reversed", "sorted", "tuple", "iter") and len(e.args) == 1:
            e = e.args[0]
        elif isinstance(e, ast.Call) and isinstance(e.func, ast.Attribute) and e.func.attr == "copy" and not e.args:
            e = e.func.value
        else:
            return e


# ---------------------------------------------------------------------------------------------------------------------------------------------------------
# local helpers (candidates for sa/): structural copy, helper inlining, interpretation of small extracted functions on representative values


def _copy_ast(n):
    """structural copy of an analysed AST: positions and the N8 / N9 marks are kept, the parent / module links are NOT followed (copy.deepcopy would drag the whole package along)."""
    if isinstance(n, list):
        return [_copy_ast(x) for x in n]
    if not isinstance(n, ast.AST):
        return n
    new = type(n)(**{f: _copy_ast(v) for f, v in ast.iter_fields(n)})
    for a in ("lineno", "col_offset", "end_lineno", "end_col_offset", "_synthetic_arm", "_from_constant"):
        if hasattr(n, a):
            setattr(new, a, getattr(n, a))
    return new


class _NotInlinable(Exception):
    pass


def _own_body(h):
    """statements of a helper without docstring and logging"""
    return [s for s in h.body if not is_logging_stmt(s) and not (isinstance(s, ast.Expr) and isinstance(s.value, ast.Constant))]


def _has(stmts, types):
    return any(isinstance(x, types) for s in (stmts if isinstance(stmts, list) else [stmts]) for x in source.walk_local(s))


def inline_helpers(root, resolve, parent=None, depth=4):
    """Copy of the function `root` in which calls of helper functions are expanded in place (`resolve(call)` -> FunctionDef of the callee or None), so that a rule stated on ONE
    function reads a caller together with the helpers extracted from it:
      * a helper that only returns an expression is substituted wherever it is called;
      * `self.h(a)` as a statement, `x = self.h(a)`, `return self.h(a)`, `if [not] self.h(a): Y else: Z` are replaced by the helper's body, every `return E` of which (all of them
        must be in tail position - guard clauses are, after N8) becomes nothing / `x = E` / `return E` / `if [not] E: Y else: Z`; falling off the end counts as `return None`.
    Parameters are replaced by the argument expressions (simple arguments) or bound to fresh locals first; locals of the helper that clash with names of the caller are renamed.
    Returns (function, expanded helper ids, helper ids that could not be expanded at some call). Statement positions are those of the original statements."""
    f = _copy_ast(root)
    names = {x.id for x in ast.walk(f) if isinstance(x, ast.Name)} | {a.arg for a in ast.walk(f) if isinstance(a, ast.arg)}
    expanded, failed = set(), set()

    def fresh(nm):
        k = 1
        while f"{nm}__{k}" in names:
            k += 1
        names.add(f"{nm}__{k}")
        return f"{nm}__{k}"

    def instantiate(call, h):
        if isinstance(h, ast.AsyncFunctionDef) or h.args.vararg or h.args.kwarg or _has(h.body, (ast.Yield, ast.YieldFrom, ast.Await, ast.Global, ast.Nonlocal) + source.FUNC_TYPES + (ast.ClassDef,)):
            raise _NotInlinable("generator / nested scope / variadic helper")
        if any(isinstance(a, ast.Starred) for a in call.args) or any(k.arg is None for k in call.keywords):
            raise _NotInlinable("starred arguments")
        if any(dotted(d_.func if isinstance(d_, ast.Call) else d_) not in ("staticmethod", "classmethod") for d_ in h.decorator_list):
            raise _NotInlinable("decorated helper")
        bound = dict(source.bind_args(call, h))
        pos = h.args.posonlyargs + h.args.args
        for p, d in list(zip(pos[len(pos) - len(h.args.defaults):], h.args.defaults)) + [(p, d) for p, d in zip(h.args.kwonlyargs, h.args.kw_defaults) if d is not None]:
            bound.setdefault(p.arg, d)
        params = [a.arg for a in pos + h.args.kwonlyargs if a.arg not in ("self", "cls")]
        if any(p not in bound for p in params) or len(call.args) + len(call.keywords) > len(params):
            raise _NotInlinable("arguments do not bind")
        body = _copy_ast(_own_body(h))
        stored = {x.id for s in body for x in ast.walk(s) if isinstance(x, ast.Name) and isinstance(x.ctx, (ast.Store, ast.Del))}
        mapping, pre = {}, []
        for p in params:
            a = bound[p]
            if (isinstance(a, (ast.Name, ast.Constant)) or dotted(a) is not None) and p not in stored:
                mapping[p] = a
            else:
                nm = p if p not in names else fresh(p)
                names.add(nm)
                pre.append(ast.copy_location(ast.Assign(targets=[ast.Name(id=nm, ctx=ast.Store())], value=_copy_ast(a)), call))
                mapping[p] = ast.Name(id=nm, ctx=ast.Load())
        for nm in sorted(stored - set(params)):
            if nm in names:
                mapping[nm] = ast.Name(id=fresh(nm), ctx=ast.Load())
            else:
                names.add(nm)

        class S(ast.NodeTransformer):
            def visit_Name(self, n):
                m = mapping.get(n.id)
                if m is None:
                    return n
                if isinstance(n.ctx, ast.Load):
                    return ast.copy_location(_copy_ast(m), n)
                return ast.copy_location(ast.Name(id=m.id, ctx=n.ctx), n)  # stores only hit renamed locals / re-bound parameters: both map to names

        return pre, [S().visit(s) for s in body]

    def tails(stmts, k):
        """the statement list with every (tail) return replaced by k(value); k(None) where the list completes normally"""
        out = []
        for i, s in enumerate(stmts):
            if isinstance(s, ast.Return):
                return out + k(s.value)
            if _has(s, ast.Return):
                if not isinstance(s, ast.If) or i != len(stmts) - 1:
                    raise _NotInlinable("return that is not in tail position")
                s.body = tails(s.body, k) or [ast.copy_location(ast.Pass(), s)]
                s.orelse = tails(s.orelse, k)
                return out + [s]
            out.append(s)
        return out + k(None)

    def expr_helpers(s, d):
        """substitute helpers that only return an expression, in the expressions of the statement itself (not in nested blocks)"""
        class E(ast.NodeTransformer):
            def visit_Call(self, c):
                self.generic_visit(c)
                h = resolve(c)
                if h is None or d <= 0:
                    return c
                try:
                    ob_ = _own_body(h)
                    if len(ob_) != 1 or not isinstance(ob_[0], ast.Return) or ob_[0].value is None:
                        return c
                    pre, body = instantiate(c, h)
                    if pre:
                        return c
                except _NotInlinable:
                    return c
                expanded.add(id(h))
                return ast.copy_location(body[0].value, c)

        for fld, v in list(ast.iter_fields(s)):
            if isinstance(v, ast.expr):
                setattr(s, fld, E().visit(v))
            elif isinstance(v, list) and v and not isinstance(v[0], (ast.stmt, ast.ExceptHandler)) and fld != "decorator_list":
                setattr(s, fld, [E().visit(x) if isinstance(x, ast.AST) else x for x in v])

    def stmt_form(s):
        """(call, continuation) if the statement is one of the expandable call forms"""
        if isinstance(s, ast.Expr) and isinstance(s.value, ast.Call):
            return s.value, lambda v: [ast.copy_location(ast.Expr(value=v), s)] if v is not None and _has(ast.Expr(value=v), ast.Call) else []
        if isinstance(s, ast.Assign) and isinstance(s.value, ast.Call) and len(s.targets) == 1:
            return s.value, lambda v: [ast.copy_location(ast.Assign(targets=_copy_ast(s.targets), value=v if v is not None else ast.Constant(value=None)), s)]
        if isinstance(s, ast.Return) and isinstance(s.value, ast.Call):
            return s.value, lambda v: [ast.copy_location(ast.Return(value=v), s)]
        if isinstance(s, ast.If):
            t, neg = s.test, False
            if isinstance(t, ast.UnaryOp) and isinstance(t.op, ast.Not):
                t, neg = t.operand, True
            if isinstance(t, ast.Call):
                def k(v):
                    v = v if v is not None else ast.Constant(value=None)
                    if isinstance(v, ast.Constant):
                        return _copy_ast(s.orelse if bool(v.value) == neg else s.body)
                    new = ast.copy_location(ast.If(test=ast.UnaryOp(op=ast.Not(), operand=v) if neg else v, body=_copy_ast(s.body), orelse=_copy_ast(s.orelse)), s)
                    if getattr(s, "_synthetic_arm", None):
                        new._synthetic_arm = s._synthetic_arm
                    return [new]
                return t, k
        return None

    def is_helper_call(e):
        if isinstance(e, ast.UnaryOp) and isinstance(e.op, ast.Not):
            e = e.operand
        return isinstance(e, ast.Call) and resolve(e) is not None

    def prenorm(s):
        """statements equivalent to s in which a helper call that is an operand of the and / or of an if-test, or the iterable of a loop, stands alone (so that it is one of the
        expandable forms): `if A or H(): X else: Z` -> `if A: X else: (if H(): X else: Z)`, `if A and H(): X else: Z` -> `if A: (if H(): X else: Z) else: Z`,
        `for v in H(): B` -> `t = H(); for v in t: B`."""
        if isinstance(s, ast.For) and is_helper_call(s.iter) and isinstance(s.iter, ast.Call):
            t = fresh("it")
            first = ast.copy_location(ast.Assign(targets=[ast.Name(id=t, ctx=ast.Store())], value=s.iter), s)
            s.iter = ast.copy_location(ast.Name(id=t, ctx=ast.Load()), s.iter)
            return [first, s]
        if isinstance(s, ast.If) and isinstance(s.test, ast.BoolOp) and any(is_helper_call(v) for v in s.test.values):
            vals, is_or = s.test.values, isinstance(s.test.op, ast.Or)
            i = next(j for j, v in enumerate(vals) if is_helper_call(v))

            def group(vs):
                return vs[0] if len(vs) == 1 else ast.copy_location(ast.BoolOp(op=type(s.test.op)(), values=vs), s.test)

            def mk(test, body, orelse):
                return ast.copy_location(ast.If(test=test, body=body or [ast.copy_location(ast.Pass(), s)], orelse=orelse), s)

            X, Z = s.body, s.orelse
            inner = (mk(group(vals[i + 1:]), _copy_ast(X), _copy_ast(Z)) if vals[i + 1:] else None)
            if is_or:
                mid = mk(vals[i], _copy_ast(X), [inner] if inner is not None else _copy_ast(Z))
                return [mk(group(vals[:i]), _copy_ast(X), [mid])] if vals[:i] else [mid]
            mid = mk(vals[i], [inner] if inner is not None else _copy_ast(X), _copy_ast(Z))
            return [mk(group(vals[:i]), [mid], _copy_ast(Z))] if vals[:i] else [mid]
        return None

    def block(stmts, d):
        out = []
        for s in stmts:
            expr_helpers(s, d)
            pre_ = prenorm(s) if d > 0 else None
            if pre_ is not None:
                out += block(pre_, d)
                continue
            form = stmt_form(s) if d > 0 else None
            h = resolve(form[0]) if form else None
            if h is not None:
                try:
                    pre, body = instantiate(form[0], h)
                    new = pre + tails(body, form[1])
                    expanded.add(id(h))
                    out += block(new, d - 1)
                    continue
                except _NotInlinable:
                    failed.add(id(h))
            for fld in ("body", "orelse", "finalbody"):
                b = getattr(s, fld, None)
                if isinstance(b, list) and b and isinstance(b[0], ast.stmt):
                    setattr(s, fld, block(b, d))
            for hd in getattr(s, "handlers", []) or []:
                hd.body = block(hd.body, d)
            out.append(s)
        return out

    f.body = block(f.body, depth) or [ast.Pass()]
    for x in ast.walk(f):
        if isinstance(x, ast.Call) and resolve(x) is not None:
            failed.add(id(resolve(x)))  # a call that is still there was not expanded
    ast.fix_missing_locations(f)
    source.set_parents(f)
    f._parent = parent if parent is not None else source.parent(root)
    mod = getattr(root, "_module", None)
    for x in ast.walk(f):
        x._module = mod
    return f, expanded, failed


class _CannotRun(Exception):
    """the extracted code uses a construct the value interpreter does not model: the verdict is 'not recognised'"""


class _Raised(Exception):
    def __init__(self, text):
        super().__init__(text)
        self.text = text


class _Cls:
    """a class of the analysed package as a VALUE (never instantiated for real)"""

    def __init__(self, name, node=None):
        self.name, self.node = name, node

    def __repr__(self):
        return self.name


class _Inst:
    """the construction of a package class on evaluated arguments"""

    def __init__(self, cls, args, kwargs):
        self.cls, self.args, self.kwargs = cls, list(args), dict(kwargs)

    def __eq__(self, other):
        return isinstance(other, _Inst) and (self.cls.name, self.args, self.kwargs) == (other.cls.name, other.args, other.kwargs)

    def __hash__(self):
        return hash(self.cls.name)

    def __repr__(self):
        return f"{self.cls.name}({', '.join([repr(a) for a in self.args] + [f'{k}={v!r}' for k, v in self.kwargs.items()])})"


_NOHOOK = object()


class _Interp:
    """Interprets small EXTRACTED functions on representative values (strings, lists, records): if / for / assignments (also unpacking and self.<attr>) / append / return / raise /
    continue / break; expressions through minieval (operands evaluated here first, so that calls nested in them are seen); calls of methods of the same class and of functions of the
    same module are followed; a call of a package class yields an _Inst. Module-level names (tables of classes, import aliases of package modules) are resolved from the module.
    Nothing of the repository is imported or executed. Anything not modelled raises _CannotRun / minieval.CannotEval (=> 'not recognised', never a verdict)."""

    PURE = {**{m: str for m in ("split", "rsplit", "partition", "rpartition", "strip", "lstrip", "rstrip", "lower", "upper", "casefold", "title", "capitalize", "startswith", "endswith",
                                "removeprefix", "removesuffix", "find", "rfind", "replace", "isdigit", "isalpha", "isalnum", "splitlines", "join")},
            "index": (str, list, tuple), "count": (str, list, tuple), "copy": (list, dict, set), "items": dict, "keys": dict, "values": dict}

    def __init__(self, repo, special=None, fuel=20000):
        self.repo, self.special, self.fuel, self.depth = repo, special, fuel, 0
        self._glob, self._gen = {}, {}

    # -- names ------------------------------------------------------------------------------------------------------------------------------------------
    def frame(self, mod, cls=None, self_value=None, **binds):
        env = {"__mod__": mod, "__cls__": cls}
        if self_value is not None:
            env["self"] = self_value
        env.update(binds)
        return env

    def class_consts(self, mod, cls):
        """class-level simple assignments as fields (self.TABLE reads them)"""
        out = {}
        for st in cls.body:
            if isinstance(st, ast.Assign) and len(st.targets) == 1 and isinstance(st.targets[0], ast.Name):
                try:
                    out[st.targets[0].id] = self.val(st.value, self.frame(mod, cls))
                except (minieval.CannotEval, _CannotRun, _Raised):
                    pass
        return out

    def module_record(self, dotted_name):
        for rel in (dotted_name.replace(".", "/") + ".py", dotted_name.replace(".", "/") + "/__init__.py"):
            if self.repo.exists(rel):
                m = self.repo.module(rel)
                return minieval.Record(**{n.name: _Cls(n.name, n) for n in m.tree.body if isinstance(n, ast.ClassDef)})
        return None

    def global_value(self, name, mod):
        key = (mod.relpath, name)
        if key in self._glob:
            if self._glob[key] is _NOHOOK:
                raise minieval.CannotEval(f"unbound name {name}")
            return self._glob[key]
        self._glob[key] = _NOHOOK  # cycle guard
        val = _NOHOOK
        defs = [n for n in mod.tree.body if (isinstance(n, ast.Assign) and any(isinstance(t, ast.Name) and t.id == name for t in n.targets)) or (isinstance(n, ast.ClassDef) and n.name == name)]
        if len(defs) == 1 and isinstance(defs[0], ast.ClassDef):
            val = _Cls(name, defs[0])
        elif len(defs) == 1 and len(defs[0].targets) == 1:
            try:
                val = self.val(defs[0].value, self.frame(mod))
            except (minieval.CannotEval, _CannotRun, _Raised):
                val = _NOHOOK
        elif not defs and name in mod.imports:
            target = mod.imports[name]
            rec = self.module_record(target)
            if rec is not None:
                val = rec
            elif "." in target:
                owner = self.module_record(target.rsplit(".", 1)[0])
                if owner is not None and target.rsplit(".", 1)[1] in owner.fields:
                    val = owner.fields[target.rsplit(".", 1)[1]]
        self._glob[key] = val
        if val is _NOHOOK:
            raise minieval.CannotEval(f"unbound name {name}")
        return val

    # -- expressions ------------------------------------------------------------------------------------------------------------------------------------
    def _tick(self):
        self.fuel -= 1
        if self.fuel < 0:
            raise _CannotRun("too many steps")

    def val(self, e, env):
        self._tick()
        if isinstance(e, ast.Constant):
            return e.value
        if isinstance(e, ast.Name):
            if e.id in env:
                return env[e.id]
            return self.global_value(e.id, env["__mod__"])
        if isinstance(e, ast.BoolOp):
            r = None
            for v in e.values:
                r = self.val(v, env)
                if bool(r) != isinstance(e.op, ast.And):
                    return r
            return r
        if isinstance(e, ast.IfExp):
            return self.val(e.body, env) if self.val(e.test, env) else self.val(e.orelse, env)
        if isinstance(e, ast.UnaryOp) and isinstance(e.op, ast.Not):
            return not self.val(e.operand, env)
        if isinstance(e, ast.NamedExpr) and isinstance(e.target, ast.Name):
            env[e.target.id] = self.val(e.value, env)
            return env[e.target.id]
        if isinstance(e, (ast.ListComp, ast.GeneratorExp, ast.SetComp)):
            out = []

            def rec(i, env_):
                if i == len(e.generators):
                    out.append(self.val(e.elt, env_))
                    return
                g = e.generators[i]
                if g.is_async:
                    raise minieval.CannotEval("async comprehension")
                for v in self.iterable(self.val(g.iter, env_), g.iter):
                    env2 = dict(env_)
                    self.bind(g.target, v, env2)
                    if all(self.val(c, env2) for c in g.ifs):
                        rec(i + 1, env2)

            rec(0, env)
            return set(out) if isinstance(e, ast.SetComp) else out
        if isinstance(e, ast.JoinedStr):
            try:
                return minieval.ev(e, {k: v for k, v in env.items() if not k.startswith("__")})
            except (TypeError, ValueError, AttributeError, KeyError, IndexError) as x:
                raise minieval.CannotEval(f"{short(e, 50)}: {type(x).__name__}")
        if isinstance(e, ast.Subscript) and isinstance(e.slice, ast.Slice):
            seq = self.val(e.value, env)
            parts = [None if p_ is None else self.val(p_, env) for p_ in (e.slice.lower, e.slice.upper, e.slice.step)]
            if isinstance(seq, (list, tuple, str)) and all(p_ is None or (isinstance(p_, int) and not isinstance(p_, bool)) for p_ in parts) and parts[2] != 0:
                return seq[slice(*parts)]
            raise minieval.CannotEval(f"slice {short(e, 50)}")
        if isinstance(e, ast.Call):
            r = self.call(e, env)
            if r is not _NOHOOK:
                return r
        return self._shallow(e, env)

    def iterable(self, v, node):
        if isinstance(v, dict):
            return list(v)
        if isinstance(v, (list, tuple, set, frozenset, str, range)):
            return list(v)
        raise minieval.CannotEval(f"iteration over {short(node, 40)}")

    def _shallow(self, e, env):
        """evaluate the operands here, the node itself through minieval on placeholders"""
        ph = {}

        def sub(c):
            if isinstance(c, ast.Name):
                if c.id not in env:
                    try:
                        ph[c.id] = self.global_value(c.id, env["__mod__"])
                    except minieval.CannotEval:
                        pass  # builtins (len, str, isinstance's type names) are minieval's business
                return c
            if isinstance(c, ast.expr) and not isinstance(c, (ast.Constant, ast.Slice, ast.Starred)):
                k = f"__ph{len(ph)}"
                ph[k] = self.val(c, env)
                return ast.Name(id=k, ctx=ast.Load())
            return c

        fields = {}
        for fld, v in ast.iter_fields(e):
            if isinstance(e, ast.Call) and fld == "func":
                fields[fld] = ast.Attribute(value=sub(v.value), attr=v.attr, ctx=ast.Load()) if isinstance(v, ast.Attribute) else sub(v) if not isinstance(v, ast.Name) else v
            elif isinstance(e, ast.Call) and fld == "keywords":
                fields[fld] = [ast.keyword(arg=k.arg, value=sub(k.value)) for k in v]
            elif isinstance(e, ast.Call) and fld == "args" and dotted(e.func) == "isinstance" and len(v) == 2:
                fields[fld] = [sub(v[0]), v[1]]
            elif isinstance(v, list):
                fields[fld] = [sub(x) if isinstance(x, ast.AST) else x for x in v]
            elif isinstance(v, ast.AST):
                fields[fld] = sub(v)
            else:
                fields[fld] = v
        new = ast.copy_location(type(e)(**fields), e)
        base = {k: v for k, v in env.items() if not k.startswith("__")}
        base.update(ph)
        try:
            return minieval.ev(new, base)
        except (TypeError, ValueError, AttributeError, KeyError, IndexError, ArithmeticError) as x:  # an operation the VALUES do not support (len(None), ...): not modelled
            raise minieval.CannotEval(f"{short(e, 50)}: {type(x).__name__}")

    def call(self, e, env):
        if self.special is not None:
            r = self.special(e, env, self)
            if r is not _NOHOOK:
                return r
        h = self.resolve(e, env)
        if h is not None:
            return self.invoke(h[0], e, env, h[1])
        if isinstance(e.func, ast.Attribute) and e.func.attr in self.PURE and not e.keywords and not any(isinstance(a, ast.Starred) for a in e.args):
            # side-effect free methods of builtin strings / lists / dicts are applied to the VALUES (no code of the repository runs)
            try:
                recv = self.val(e.func.value, env)
            except minieval.CannotEval:
                recv = _NOHOOK
            if isinstance(recv, self.PURE[e.func.attr]) and not isinstance(recv, bool):
                args = [self.val(a, env) for a in e.args]
                if all((isinstance(a, (str, int, type(None), tuple)) and not isinstance(a, bool)) or (e.func.attr == "join" and isinstance(a, list) and all(isinstance(x, str) for x in a)) for a in args):
                    try:
                        r = getattr(recv, e.func.attr)(*args)
                    except (ValueError, IndexError, KeyError, TypeError) as x:
                        raise _Raised(f"{type(x).__name__} in {short(e, 50)}")
                    return list(r) if e.func.attr in ("items", "keys", "values") else r
        f = None
        if isinstance(e.func, (ast.Name, ast.Attribute)):
            try:
                f = self.val(e.func, env)
            except minieval.CannotEval:
                f = None
        if isinstance(f, _Cls):
            if any(isinstance(a, ast.Starred) for a in e.args) or any(k.arg is None for k in e.keywords):
                raise minieval.CannotEval("starred arguments")
            return _Inst(f, [self.val(a, env) for a in e.args], {k.arg: self.val(k.value, env) for k in e.keywords})
        return _NOHOOK

    def resolve(self, e, env):
        """(function, is method) for self.m(...) of the current class and f(...) of the current module"""
        mod, cls = env.get("__mod__"), env.get("__cls__")
        if isinstance(e.func, ast.Attribute) and isinstance(e.func.value, ast.Name) and e.func.value.id in ("self", "cls") and cls is not None:
            m = next((n for n in cls.body if isinstance(n, source.FUNC_TYPES) and n.name == e.func.attr), None)
            return (m, True) if m is not None else None
        if isinstance(e.func, ast.Name) and e.func.id not in env and mod is not None:
            m = next((n for n in mod.tree.body if isinstance(n, source.FUNC_TYPES) and n.name == e.func.id), None)
            return (m, False) if m is not None else None
        return None

    def invoke(self, func, call, env, method, argv=None):
        self.depth += 1
        try:
            if self.depth > 8:
                raise _CannotRun("call depth")
            new = self.frame(env["__mod__"], env.get("__cls__") if method else None, env.get("self") if method else None)
            if argv is None:
                if any(isinstance(a, ast.Starred) for a in call.args) or any(k.arg is None for k in call.keywords):
                    raise minieval.CannotEval("starred arguments")
                argv = {}
                for p, a in source.bind_args(call, func).items():
                    try:
                        argv[p] = self.val(a, env)
                    except minieval.CannotEval:
                        pass  # an opaque argument (a config object, a logger): unbound in the callee - only a USE of its value there stops the interpretation
            new.update(argv)
            pos = func.args.posonlyargs + func.args.args
            for p, d in list(zip(pos[len(pos) - len(func.args.defaults):], func.args.defaults)) + [(p, d) for p, d in zip(func.args.kwonlyargs, func.args.kw_defaults) if d is not None]:
                if p.arg not in new:
                    new[p.arg] = self.val(d, self.frame(env["__mod__"]))
            gen = self._gen.get(id(func))
            if gen is None:
                gen = self._gen[id(func)] = _has(func.body, (ast.Yield, ast.YieldFrom))
            if gen:
                new["__yield__"] = []
            kind, v = self.run(func.body, new)
            if kind == "raise":
                raise _Raised(v)
            if gen:
                return new["__yield__"]
            return v if kind == "return" else None
        finally:
            self.depth -= 1

    # -- statements -------------------------------------------------------------------------------------------------------------------------------------
    def bind(self, t, v, env):
        if isinstance(t, ast.Name):
            env[t.id] = v
        elif isinstance(t, (ast.Tuple, ast.List)) and not any(isinstance(x, ast.Starred) for x in t.elts):
            if not isinstance(v, (list, tuple)):
                raise _CannotRun(f"unpacking of {type(v).__name__}")
            if len(v) != len(t.elts):
                raise _Raised(f"ValueError (unpacking {len(v)} value(s) into {len(t.elts)} name(s))")
            for x, y in zip(t.elts, v):
                self.bind(x, y, env)
        elif isinstance(t, ast.Attribute):
            o = self.val(t.value, env)
            if not isinstance(o, minieval.Record):
                raise _CannotRun(f"store to {short(t, 40)}")
            o.fields[t.attr] = v
        elif isinstance(t, ast.Subscript):
            o = self.val(t.value, env)
            if not isinstance(o, (dict, list)):
                raise _CannotRun(f"store to {short(t, 40)}")
            try:
                o[self.val(t.slice, env)] = v
            except (IndexError, TypeError) as x:
                raise _CannotRun(f"store to {short(t, 40)}: {type(x).__name__}")
        else:
            raise _CannotRun(f"store to {short(t, 40)}")

    def unbind(self, t, env):
        if isinstance(t, ast.Name):
            env.pop(t.id, None)
        elif isinstance(t, (ast.Tuple, ast.List)):
            for x in t.elts:
                self.unbind(x, env)
        elif isinstance(t, ast.Attribute):
            try:
                o = self.val(t.value, env)
            except minieval.CannotEval:
                return
            if isinstance(o, minieval.Record):
                o.fields.pop(t.attr, None)
        elif isinstance(t, ast.Subscript):
            raise _CannotRun(f"store of a value that is not evaluable to {short(t, 40)}")

    def run(self, stmts, env):
        """(kind, value): return / raise (text) / continue / break / fallthrough"""
        for s in stmts:
            self._tick()
            try:
                r = self.stmt(s, env)
            except _Raised as x:
                return "raise", x.text
            if r is not None:
                return r
        return "fallthrough", None

    def test(self, e, env):
        try:
            return bool(self.val(e, env))
        except minieval.CannotEval as x:
            raise _CannotRun(f"condition `{short(e, 60)}` is not evaluable ({x})")

    def stmt(self, s, env):
        if is_logging_stmt(s) or isinstance(s, (ast.Pass, ast.Import, ast.ImportFrom, ast.Assert)):
            return None
        if isinstance(s, ast.Expr):
            v = s.value
            if isinstance(v, ast.Constant):
                return None
            if isinstance(v, (ast.Yield, ast.YieldFrom)):
                if v.value is None:
                    raise _CannotRun("bare yield")
                try:
                    y = self.val(v.value, env)
                except minieval.CannotEval as x:
                    raise _CannotRun(f"yielded value not evaluable ({x})")
                env["__yield__"] += self.iterable(y, v.value) if isinstance(v, ast.YieldFrom) else [y]
                return None
            if isinstance(v, ast.Call) and isinstance(v.func, ast.Attribute) and self.resolve(v, env) is None:
                try:
                    recv = self.val(v.func.value, env)
                except minieval.CannotEval:
                    return None  # a call on something that is not tracked (super().__init__(), console output): no effect on the tracked values
                if isinstance(recv, (list, set, dict)):
                    try:
                        args = [self.val(a, env) for a in v.args]
                    except minieval.CannotEval as x:
                        raise _CannotRun(f"`{short(v, 60)}`: argument not evaluable ({x})")
                    m = v.func.attr
                    if isinstance(recv, list) and m == "append" and len(args) == 1:
                        recv.append(args[0])
                    elif isinstance(recv, list) and m == "extend" and len(args) == 1:
                        recv.extend(self.iterable(args[0], v.args[0]))
                    elif isinstance(recv, list) and m == "insert" and len(args) == 2 and isinstance(args[0], int):
                        recv.insert(args[0], args[1])
                    elif isinstance(recv, list) and m == "remove" and len(args) == 1:
                        if not any(x is args[0] or x == args[0] for x in recv):
                            raise _Raised("ValueError (list.remove(x): x not in list)")
                        recv.remove(args[0])
                    elif isinstance(recv, list) and m == "pop" and len(args) <= 1 and all(isinstance(a, int) for a in args):
                        if not recv or (args and not -len(recv) <= args[0] < len(recv)):
                            raise _Raised("IndexError (pop)")
                        recv.pop(*args)
                    elif isinstance(recv, set) and m == "add" and len(args) == 1:
                        recv.add(args[0])
                    elif isinstance(recv, dict) and m == "setdefault" and 1 <= len(args) <= 2:
                        recv.setdefault(*args)
                    else:
                        raise _CannotRun(f"`{short(v, 60)}`: mutation not modelled")
                    return None
                if isinstance(recv, (minieval.Record, _Inst)):
                    raise _CannotRun(f"`{short(v, 60)}`: method call on a tracked object")
                return None
            try:
                self.val(v, env)
            except minieval.CannotEval:
                pass
            return None
        if isinstance(s, ast.Assign):
            try:
                v = self.val(s.value, env)
            except minieval.CannotEval:
                for t in s.targets:
                    self.unbind(t, env)
                return None
            for t in s.targets:
                self.bind(t, v, env)
            return None
        if isinstance(s, ast.AugAssign):
            try:
                cur = self.val(s.target, env)
                v = self.val(s.value, env)
                if isinstance(s.op, ast.Add) and isinstance(cur, list):
                    cur.extend(self.iterable(v, s.value))
                    return None
                new = minieval.ev(ast.BinOp(left=ast.Name(id="a", ctx=ast.Load()), op=s.op, right=ast.Name(id="b", ctx=ast.Load())), {"a": cur, "b": v})
            except (minieval.CannotEval, KeyError):
                self.unbind(s.target, env)
                return None
            self.bind(s.target, new, env)
            return None
        if isinstance(s, ast.If):
            return self._arm(s.body if self.test(s.test, env) else s.orelse, env)
        if isinstance(s, ast.For):
            try:
                items = self.iterable(self.val(s.iter, env), s.iter)
            except minieval.CannotEval as x:
                raise _CannotRun(f"loop over `{short(s.iter, 40)}` is not evaluable ({x})")
            broke = False
            for v in items:
                self.bind(s.target, v, env)
                r = self._arm(s.body, env)
                if r is not None:
                    if r[0] == "continue":
                        continue
                    if r[0] == "break":
                        broke = True
                        break
                    return r
            return self._arm(s.orelse, env) if s.orelse and not broke else None
        if isinstance(s, ast.Return):
            if s.value is None:
                return "return", None
            try:
                return "return", self.val(s.value, env)
            except minieval.CannotEval as x:
                raise _CannotRun(f"returned value `{short(s.value, 60)}` is not evaluable ({x})")
        if isinstance(s, ast.Raise):
            return "raise", short(s.exc, 80) if s.exc is not None else "re-raise"
        if isinstance(s, ast.Continue):
            return "continue", None
        if isinstance(s, ast.Break):
            return "break", None
        raise _CannotRun(f"statement kind {type(s).__name__} at line {getattr(s, 'lineno', '?')}")

    def _arm(self, stmts, env):
        r = self.run(stmts, env)
        return None if r[0] == "fallthrough" else r


class _Elem(minieval.Record):
    """a representative object of the track as a VALUE: a schedule element (kind 'leaf' / 'parallel') or a filter probe (kind 'filter'). `attrs`: every attribute name an instance
    has (hasattr); `fields`: the attributes whose value is fixed (literals the constructor stores, the sub-tasks of a parallel element); `iter_field`: what iterating it yields."""

    def __init__(self, kind, attrs=(), iter_field=None, **fields):
        super().__init__(**fields)
        self.kind, self.attrs, self.iter_field = kind, set(attrs) | set(fields), iter_field

    def __repr__(self):
        return f"<{self.kind}{self.fields.get('idx', '')}>"


def element_model(trk, cname):
    """(attribute names of an instance of track.<cname>, {attribute: literal} for the attributes its constructor always sets to that literal, the attribute `__iter__` iterates)"""
    c = trk.cls(cname)
    ms = trk.methods(c)
    attrs, stores = set(ms) | {t.id for st in c.body if isinstance(st, ast.Assign) for t in st.targets if isinstance(t, ast.Name)}, {}
    ini = ms.get("__init__")
    for n in (walk_body(ini) if ini is not None else ()):
        if isinstance(n, (ast.Assign, ast.AugAssign, ast.AnnAssign)):
            for t in (n.targets if isinstance(n, ast.Assign) else [n.target]):
                if is_self_attr(t):
                    attrs.add(t.attr)
                    stores.setdefault(t.attr, []).append(n.value if isinstance(n, ast.Assign) else None)
    consts = {a: vs[0].value for a, vs in stores.items() if all(isinstance(v, ast.Constant) for v in vs) and len({repr(v.value) for v in vs}) == 1}
    itf = None
    im = ms.get("__iter__")
    if im is not None:
        ob_ = _own_body(im)
        if len(ob_) == 1 and isinstance(ob_[0], ast.Return) and isinstance(ob_[0].value, ast.Call) and dotted(ob_[0].value.func) == "iter" and len(ob_[0].value.args) == 1 \
                and is_self_attr(ob_[0].value.args[0]):
            itf = ob_[0].value.args[0].attr
    return attrs, consts, itf


class _ElemInterp(_Interp):
    """_Interp over representative schedule elements: iterating a parallel element yields its sub-tasks (Parallel.__iter__); reading an attribute that is a @property of the
    element's class runs the property (methods(element, name) -> (module, class, function) or None)"""

    def __init__(self, repo, special=None, methods=None, fuel=20000, live=False):
        super().__init__(repo, special, fuel)
        self.methods = methods
        self.live = live  # loops run over the list object itself (what CPython does: a removal from the iterated list skips the next element), not over a snapshot

    def val(self, e, env):
        if isinstance(e, ast.Attribute) and self.methods is not None:
            self._tick()
            v = self.val(e.value, env)
            if isinstance(v, minieval.Record) and e.attr in v.fields:
                return v.fields[e.attr]
            if isinstance(v, _Elem) and v.kind in ("leaf", "parallel"):
                m_ = self.methods(v, e.attr)
                if m_ is not None and m_[2] is not None and any(dotted(d_) == "property" for d_ in m_[2].decorator_list):
                    return self.invoke(m_[2], None, self.frame(m_[0], m_[1], v), True, argv={})
            raise minieval.CannotEval(f"attribute {short(e, 60)}")
        return super().val(e, env)

    def iterable(self, v, node):
        if isinstance(v, _Elem):
            if v.iter_field is not None and isinstance(v.fields.get(v.iter_field), list):
                return v.fields[v.iter_field] if self.live else list(v.fields[v.iter_field])
            m_ = self.methods(v, "__iter__") if self.methods is not None and v.kind in ("leaf", "parallel") else None
            if m_ is not None and m_[2] is not None:
                r = self.invoke(m_[2], None, self.frame(m_[0], m_[1], v), True, argv={})  # Task.__iter__: `return iter([self])` - the leaf is its own only leaf
                if isinstance(r, (list, tuple)):
                    return list(r)
            raise minieval.CannotEval(f"iteration over {short(node, 40)} (a {v.kind})")
        if self.live and isinstance(v, list):
            return v
        return super().iterable(v, node)

    def stmt(self, s, env):
        # `<element>.remove_task(<leaf>)` / `<challenge>.remove_task(<element>)` as a statement: the method of the element's class is followed on the representative
        if self.methods is not None and isinstance(s, ast.Expr) and isinstance(s.value, ast.Call) and isinstance(s.value.func, ast.Attribute) and not is_logging_stmt(s) \
                and s.value.func.attr != "matches" and self.resolve(s.value, env) is None:
            c = s.value
            try:
                recv = self.val(c.func.value, env)
            except minieval.CannotEval:
                recv = None
            if isinstance(recv, _Elem) and recv.kind != "filter" and not any(isinstance(a, ast.Starred) for a in c.args) and not any(k.arg is None for k in c.keywords):
                m_ = self.methods(recv, c.func.attr)
                if m_ is not None and m_[2] is not None:
                    try:
                        argv = {p_: self.val(a_, env) for p_, a_ in source.bind_args(c, m_[2]).items()}
                    except minieval.CannotEval as x:
                        raise _CannotRun(f"`{short(c, 60)}`: argument not evaluable ({x})")
                    self.invoke(m_[2], None, self.frame(m_[0], m_[1], recv), True, argv=argv)
                    return None
        return super().stmt(s, env)


ELEMENT_CLASSES = {"Parallel": "parallel", "Task": "leaf"}  # the two classes of schedule elements (track.py, "Schedule elements")


def element_special(answer, methods=None):
    """call hook for _Interp that answers the questions code asks about representative elements: `<element>.matches(<filter>)` (and, for a leaf, the filter's own
    `<filter>.matches(<leaf>)` that Task.matches delegates to) through answer(element, filter) -> bool; isinstance(<element>, Parallel / Task / tuple of them), hasattr / getattr on
    an element; map(<bound method or lambda>, <list>) and next(<generator>[, default]) evaluated eagerly on the values; any other method of the element's class is followed
    (methods(element, name) -> (module, class, function) or None)."""
    def ask(a, b):
        if isinstance(a, _Elem) and isinstance(b, _Elem):
            try:
                if a.kind in ("leaf", "parallel") and b.kind == "filter":
                    return bool(answer(a, b))
                if a.kind == "filter" and b.kind == "leaf":
                    return bool(answer(b, a))
            except (KeyError, IndexError):
                raise _CannotRun("matches() is asked about an object whose answer is not fixed by the rule")
            if a.kind == "filter" and b.kind == "parallel":
                raise _CannotRun("a filter is asked about a parallel element directly (filters read the fields of a leaf)")
        return None

    def value(it, e, env):
        try:
            return it.val(e, env)
        except minieval.CannotEval:
            return _NOHOOK

    def special(call, env, it):
        d = dotted(call.func)
        if any(isinstance(a, ast.Starred) for a in call.args) or any(k.arg is None for k in call.keywords):
            return _NOHOOK
        if d in ("isinstance", "hasattr", "getattr") and len(call.args) >= 2 and not call.keywords:
            x = value(it, call.args[0], env)
            if not (isinstance(x, _Elem) and x.kind in ("leaf", "parallel")):
                return _NOHOOK
            if d == "isinstance" and len(call.args) == 2:
                kinds = []
                for c_ in (call.args[1].elts if isinstance(call.args[1], ast.Tuple) else [call.args[1]]):
                    cv = value(it, c_, env)
                    if not (isinstance(cv, _Cls) and cv.name in ELEMENT_CLASSES):
                        raise _CannotRun(f"`{short(call, 60)}`: not a test for one of the schedule element classes")
                    kinds.append(ELEMENT_CLASSES[cv.name])
                return x.kind in kinds
            nm = value(it, call.args[1], env)
            if not isinstance(nm, str):
                raise _CannotRun(f"`{short(call, 60)}`: attribute name not evaluable")
            if d == "hasattr" and len(call.args) == 2:
                return nm in x.attrs
            if d == "getattr" and len(call.args) in (2, 3):
                if nm in x.fields:
                    return x.fields[nm]
                if nm in x.attrs:
                    raise _CannotRun(f"`{short(call, 60)}`: the value of this attribute is not modelled")
                if len(call.args) == 3:
                    return it.val(call.args[2], env)
                raise _Raised(f"AttributeError ({short(call, 50)})")
            return _NOHOOK
        if d in ("iter", "list", "tuple", "reversed") and len(call.args) == 1 and not call.keywords:
            # the leaves of an element as a sequence (Parallel.__iter__ / Task.__iter__); iter() / reversed() of a list: the elements, eagerly
            x = value(it, call.args[0], env)
            if isinstance(x, _Elem) and x.kind in ("leaf", "parallel"):
                items = list(it.iterable(x, call.args[0]))
            elif d in ("iter", "reversed") and isinstance(x, (list, tuple)):
                items = list(x)
            else:
                return _NOHOOK
            return items[::-1] if d == "reversed" else (tuple(items) if d == "tuple" else items)
        if d == "map" and len(call.args) == 2 and not call.keywords:
            fn_ = call.args[0]
            seq = value(it, call.args[1], env)
            if seq is _NOHOOK:
                return _NOHOOK
            items = it.iterable(seq, call.args[1])
            if isinstance(fn_, ast.Lambda) and len(fn_.args.args) == 1 and not (fn_.args.vararg or fn_.args.kwarg or fn_.args.kwonlyargs or fn_.args.defaults or fn_.args.posonlyargs):
                return [it.val(fn_.body, {**env, fn_.args.args[0].arg: x}) for x in items]
            if isinstance(fn_, ast.Attribute) and fn_.attr == "matches":
                recv = value(it, fn_.value, env)
                out = [ask(recv, x) for x in items]
                if all(o is not None for o in out):
                    return out
            return _NOHOOK
        if d == "next" and 1 <= len(call.args) <= 2 and not call.keywords and isinstance(call.args[0], ast.GeneratorExp):
            got = it.val(call.args[0], env)  # evaluated eagerly: the expressions read here have no effects
            if got:
                return got[0]
            if len(call.args) == 2:
                return it.val(call.args[1], env)
            raise _Raised(f"StopIteration ({short(call, 50)})")
        if isinstance(call.func, ast.Attribute) and call.func.attr == "matches" and len(call.args) == 1 and not call.keywords:
            r = ask(value(it, call.func.value, env), value(it, call.args[0], env))
            if r is not None:
                return r
        if methods is not None and isinstance(call.func, ast.Attribute) and call.func.attr != "matches":
            recv = value(it, call.func.value, env)
            m_ = methods(recv, call.func.attr) if isinstance(recv, _Elem) and recv.kind in ("leaf", "parallel") else None
            if m_ is not None and m_[2] is not None:
                argv = {p_: it.val(a_, env) for p_, a_ in source.bind_args(call, m_[2]).items()}
                return it.invoke(m_[2], None, it.frame(m_[0], m_[1], recv), True, argv=argv)
        return _NOHOOK

    return special


def run(chk):
    repo = chk.repo
    ldr, trk, drv = repo.module(_L), repo.module(_T), repo.module(_D)
    chk.use(ldr, trk, drv, _S)
    chk.explanation = (
        "Decides the filter as a finite decision function: the match routine (found by role: the method of the processor that asks <element>.matches(<filter>) for the hook; "
        "helpers extracted from it are read with it) evaluated over {exclude} x {parallel} x {vectors of per-filter match results} - INTERPRETED on a representative leaf / parallel "
        "element (built by interpreting Task.__init__ / Parallel.__init__) with one probe filter per vector entry and self as the constructor leaves it for the mode (read as a "
        "symbolic scan over the filters where the interpreter cannot run it), the filters / mode attributes being derived from what the match routine reads and the constructor "
        "stores; Parallel.matches likewise on leaves with fixed answers; conditions on a schedule element (emptied / parallel) are read from their spelling or decided on values "
        "(parallel element with 0 / 1 / 2 sub-tasks, client count derived / explicit; leaf); the constructor, the spec parser, the three filter classes, Task.__init__ (tags), Task.matches and remove_task are INTERPRETED on "
        "representative values (extracted statements and expressions only, helpers of the same class / module followed, nothing of the repository is executed): option lists -> "
        "filters built and mode set, filter(v).matches(task) over a grid of tasks, list of three elements -> list after remove_task; the hook is analysed with the helpers "
        "extracted from it expanded in place: every site that can shrink a parallel element (remove_task or a filtering store) is followed by an emptiness test whose empty edge "
        "removes the element; the processor only removes (no stores on objects of the track - by data flow from the parameters -, no mutation while iterating, removal lists fresh "
        "per challenge / element, an element is queued for removal under the match routine and nothing else, the leaf pass is reached for every parallel element that still has "
        "sub-tasks - conditions in front of it decided on parallel elements with 1 / 2 / 3 sub-tasks); the hook as a whole INTERPRETED on model schedules (two challenges, leaves and "
        "parallel elements with 1 / 2 / 3 sub-tasks, probe filters with fixed answers, loops over the live lists) for both modes and a family of selections and compared with the "
        "tasks the property keeps (same objects, same order, no emptied element, no field changed); consumer agreement (driver reports one entry per step; client floor "
        "of 1 for an emptied schedule); the removal of a leaf consults the leaf's completing role (completed-by), the attribute being derived from the track reader's data flow."
    )
    chk.not_decided = "an end-to-end race on the filtered track."
    P = ldr.cls("TaskFilterTrackProcessor")
    pm = ldr.methods(P)
    oa = pm.get("on_after_load_track")
    init = pm.get("__init__")
    if oa is None or init is None:
        raise AnchorMissing("TaskFilterTrackProcessor.__init__ / on_after_load_track")
    modfuncs = {n.name: n for n in ldr.tree.body if isinstance(n, source.FUNC_TYPES)}

    def helper_of(call):
        """the method of the processor / function of the loader module that a call names (decided on the shape of the callee expression only, so it also works on copies)"""
        if isinstance(call.func, ast.Attribute) and isinstance(call.func.value, ast.Name) and call.func.value.id in ("self", "cls"):
            return pm.get(call.func.attr)
        if isinstance(call.func, ast.Name):
            return modfuncs.get(call.func.id)
        return None

    def pclosure(f):
        """f and the helpers (methods of the processor, functions of the module) reachable from it"""
        seen, todo = [], [f]
        while todo:
            g = todo.pop()
            if any(g is s_ for s_ in seen):
                continue
            seen.append(g)
            todo += [h for x in ast.walk(g) if isinstance(x, ast.Call) for h in [helper_of(x)] if h is not None]
        return seen

    # the MATCH ROUTINE by role: the method reachable from the hook that asks `<its parameter>.matches(<filter>)` (itself or through its own helpers) and neither walks a schedule
    # nor removes anything (those are the drivers of the filtering, not the predicate); the outermost one if helpers were extracted from it
    def asks_matches(m):
        ps = [p_ for p_ in params_of(m) if p_ not in ("self", "cls")]
        return any(isinstance(c, ast.Attribute) and c.attr == "matches" and isinstance(c.value, ast.Name) and c.value.id in ps for c in ast.walk(m))  # called, or handed to map() as a bound method

    def drives(m):
        return any((isinstance(x, ast.Call) and last_attr(x.func) in ("remove_task", "remove")) or (isinstance(x, ast.Attribute) and x.attr in ("schedule", "challenges")) for x in ast.walk(m))

    mcands = [m for m in pclosure(oa) if m is not oa and pm.get(m.name) is m and len(params_of(m)) >= 2 and any(asks_matches(g) for g in pclosure(m)) and not any(drives(g) for g in pclosure(m))]
    mtop = [m for m in mcands if not any(m is g for o_ in mcands if o_ is not m for g in pclosure(o_))]
    fo = mtop[0] if len(mtop) == 1 else pm.get("_filter_out_match")
    if fo is None:
        raise AnchorMissing("the match routine of TaskFilterTrackProcessor (the method asking `<element>.matches(<filter>)` for the hook)")
    fo_slice = pclosure(fo)
    foX = inline_helpers(fo, lambda c: (lambda h: h if h is not None and h is not fo and h is not oa and h is not init else None)(helper_of(c)), parent=P)[0]
    tp = params_of(fo)[1]
    # ---- the constructor INTERPRETED on the two option values: which filters are built, which mode is set ------------------------------------------------------
    OPTS = ("include.tasks", "exclude.tasks")

    def init_state(inc, exc):
        """(kind, text, fields of self) after TaskFilterTrackProcessor.__init__ for the option values include.tasks=inc / exclude.tasks=exc"""
        given = dict(zip(OPTS, (inc, exc)))

        def special(call, env, it):
            if helper_of(call) is not None:
                return _NOHOOK  # a helper of the processor that reads the option: followed, the read inside it is recognised
            keys = []
            for a in list(call.args) + [k.value for k in call.keywords]:
                try:
                    v_ = a.value if isinstance(a, ast.Constant) else (it.val(a, env) if isinstance(a, ast.Name) else None)
                except minieval.CannotEval:
                    v_ = None
                if isinstance(v_, str) and v_ in given:
                    keys.append(v_)
            if len(keys) == 1:
                return list(given[keys[0]]) if isinstance(given[keys[0]], list) else given[keys[0]]
            return _NOHOOK

        it = _Interp(repo, special)
        me = minieval.Record(**it.class_consts(ldr, P))
        kind, v = it.run(init.body, it.frame(ldr, P, me))
        return kind, v, me.fields

    states, run_err = {}, None
    try:
        for k_ in itertools.product([True, False], repeat=2):
            states[k_] = init_state(["i"] if k_[0] else None, ["e"] if k_[1] else None)
    except (_CannotRun, minieval.CannotEval) as e:
        run_err = str(e)

    # the FILTERS attribute: the self attribute whose elements are handed to <element>.matches(...); the MODE attribute: the other self attribute the match routine reads
    fattr = None
    for g in [foX] + fo_slice[1:]:
        for c in ast.walk(g):
            if isinstance(c, ast.Call) and isinstance(c.func, ast.Attribute) and c.func.attr == "matches" and len(c.args) == 1 and isinstance(c.args[0], ast.Name):
                for n in ast.walk(g):
                    if isinstance(n, (ast.For, ast.comprehension)) and isinstance(n.target, ast.Name) and n.target.id == c.args[0].id and is_self_attr(strip_sel(n.iter)):
                        fattr = fattr or strip_sel(n.iter).attr
            if isinstance(c, ast.Call) and dotted(c.func) == "map" and len(c.args) == 2 and isinstance(c.args[0], ast.Attribute) and c.args[0].attr == "matches" and is_self_attr(strip_sel(c.args[1])):
                fattr = fattr or strip_sel(c.args[1]).attr  # map(<element>.matches, self.<filters>)
    all_reads = {n.attr for g in [foX] + fo_slice[1:] for n in ast.walk(g) if is_self_attr(n) and isinstance(n.ctx, ast.Load) and "logger" not in n.attr.lower()
                 and not (isinstance(source.parent(n), ast.Call) and source.parent(n).func is n)}
    inc_fields, exc_fields = (states[k_][2] if k_ in states and states[k_][0] != "raise" else {} for k_ in ((True, False), (False, True)))
    if fattr is None:
        # by VALUE: the attribute in which the constructor leaves the filter objects it built from the option list (and which the match routine reads)
        holds = [a for a in sorted(all_reads) if all(isinstance(fs_.get(a), (list, tuple)) and fs_.get(a) and all(isinstance(x, _Inst) for x in fs_[a]) for fs_ in (inc_fields, exc_fields))]
        fattr = holds[0] if len(holds) == 1 else None
    if fattr is None:
        raise AnchorMissing("the attribute holding the filters (iterated by the match routine, elements handed to <element>.matches)")
    reads = all_reads - {fattr}
    mattr = next(iter(reads)) if len(reads) == 1 else ("exclude" if "exclude" in reads else None)
    if mattr is None:
        # by VALUE: the attribute read by the match routine whose truth differs between `only the include list given` and `only the exclude list given`
        differs = [a for a in sorted(reads) if a in inc_fields and a in exc_fields and bool(inc_fields[a]) != bool(exc_fields[a])]
        mattr = differs[0] if len(differs) == 1 else None
    if mattr is None:
        raise AnchorMissing(f"the attribute holding the include / exclude mode (the match routine reads {sorted(reads)})")
    ff = pm.get("_filters_from_filtered_tasks") or next((h for c in walk_body(init) if isinstance(c, ast.Call) for h in [helper_of(c)] if h is not None), None) or init

    def built(fields):
        """the filters as [(class name, constructor argument)]"""
        fl = fields.get(fattr, _NOHOOK)
        if fl is _NOHOOK:
            raise _CannotRun(f"self.{fattr} is not stored / not evaluable")
        if fl is None or isinstance(fl, (list, tuple, set, frozenset)):
            out = []
            for x in (fl or []):
                if not (isinstance(x, _Inst) and len(x.args) + len(x.kwargs) == 1):
                    raise _CannotRun(f"self.{fattr} holds {x!r}")
                out.append((x.cls.name, (x.args + list(x.kwargs.values()))[0]))
            return out
        raise _CannotRun(f"self.{fattr} is {fl!r}")

    MISSING = object()
    modeval = {k_: st[2].get(mattr, MISSING) for k_, st in states.items()}
    a_inc, b_exc = modeval.get((True, False), MISSING), modeval.get((False, True), MISSING)
    if run_err is None and MISSING not in (a_inc, b_exc) and bool(a_inc) != bool(b_exc):
        mode_truth = {False: bool(a_inc), True: bool(b_exc)}  # truth of self.<mode> in include mode / in exclude mode, as the constructor sets it
    elif mattr == "exclude":
        mode_truth = {False: False, True: True}
    else:
        mode_truth = None

    # ---- O11.1 decision table ---------------------------------------------------------------------------------------------------------------
    chk.rule("O11.1", "match routine over {exclude, element is parallel, some filter matches}: leaf => remove == (match == exclude); parallel => remove == include and not match "
             "(otherwise descend); spec parsing: 1 part => name, type: => operation type, tag: => tag, else reject; filter classes compare the right fields; a parallel element "
             "matches iff some leaf matches; tags are a list", 16,
             "include keeps / exclude removes the wrong tasks for some filter list")
    PARALLEL_TESTS = ("hasattr({0}, 'tasks')", "isinstance({0}, Parallel)", "isinstance({0}, track.Parallel)")

    def match_eval(f, tpn, env, vec, depth=0):
        """what the match routine (or a helper of it applied to the element) returns for the abstract case env and the vector vec of per-filter results <element>.matches(<filter>)"""
        def base(n):
            if _pat.is_(n, *(p_.format(tpn) for p_ in PARALLEL_TESTS)):
                return env["parallel"]
            if is_self_attr(n, mattr):
                if mode_truth is None:
                    raise Unsupported(f"the meaning of self.{mattr} could not be derived from the constructor")
                return mode_truth[env["exclude"]]
            if isinstance(n, ast.Call) and depth < 3 and len(n.args) == 1 and not n.keywords and u(n.args[0]) == tpn:
                h = helper_of(n)
                if h is not None and h is not fo and pm.get(h.name) is h and len(params_of(h)) == 2:  # a helper of the processor applied to the element (not expandable in place)
                    return match_eval(h, params_of(h)[1], env, vec, depth + 1)
            return None

        return scan_eval(f.body, lambda e: is_self_attr(strip_sel(e), fattr),
                         lambda n, var: isinstance(n, ast.Call) and isinstance(n.func, ast.Attribute) and n.func.attr == "matches" and u(n.func.value) == tpn and len(n.args) == 1 and u(n.args[0]) == var,
                         base, vec)

    # representative schedule elements: which attributes a leaf / a parallel element has and which of them the constructors fix (Task.__init__ / Parallel.__init__ in track.py)
    def representative(kind, sub=(), clients=_NOHOOK, **extra):
        """an instance of the element class as a VALUE: the attributes its constructor stores, the constructor INTERPRETED on representative arguments (a leaf: a name and an opaque
        operation, every other parameter at its default; a parallel element: the given sub-tasks and, if given, the explicit client count); where the constructor is not
        interpretable, only the literals it stores"""
        cname = next(c_ for c_, k_ in ELEMENT_CLASSES.items() if k_ == kind)
        attrs, consts, itf = element_model(trk, cname)
        e = _Elem(kind, attrs, itf, **extra)
        c = trk.cls(cname)
        ini = trk.methods(c).get("__init__")
        subs = list(sub)
        try:
            if ini is None or len(params_of(ini)) < 2:
                raise _CannotRun("no constructor")
            ps = params_of(ini)[1:]
            if kind == "parallel":
                argv = {ps[0]: subs}
                if clients is not _NOHOOK:
                    if "clients" not in ps:
                        raise _CannotRun("no explicit client count")
                    argv["clients"] = clients
            else:
                argv = {ps[0]: f"t{extra.get('idx', '')}"}
                if len(ps) > 1:
                    argv[ps[1]] = minieval.Record(name="op", type="bulk")
            it = _Interp(repo)
            it.invoke(ini, None, it.frame(trk, c, e), True, argv=argv)
            if kind == "parallel":
                held = [a_ for a_, v_ in e.fields.items() if v_ is subs]
                if len(held) != 1 or (itf is not None and held[0] != itf):
                    raise _CannotRun("the attribute holding the sub-tasks is not recognised")
                e.iter_field = held[0]  # what Parallel.__iter__ iterates, or (without __iter__) the attribute the constructor stores the sub-tasks in
        except (_CannotRun, minieval.CannotEval, _Raised):
            if clients is not _NOHOOK:
                raise _CannotRun(f"{cname}.__init__ is not interpretable with an explicit client count")
            e.fields = dict(extra, **consts)
            if kind == "parallel":
                if not ("tasks" in attrs or itf):
                    raise _CannotRun("Parallel keeps its sub-tasks in an attribute that is not recognised")
                e.fields[itf or "tasks"] = subs
                e.iter_field = itf
        return e

    def parallel_with(n_leaves, clients=_NOHOOK):
        return representative("parallel", sub=[representative("leaf") for _ in range(n_leaves)], clients=clients)

    def elem_methods(e_, nm):
        cname = next(c_ for c_, k_ in ELEMENT_CLASSES.items() if k_ == e_.kind)
        return trk, trk.cls(cname), trk.methods(trk.cls(cname)).get(nm)

    def mentions_match(e):
        return any(isinstance(x, ast.Call) and helper_of(x) is not None and any(helper_of(x) is g for g in fo_slice) for x in ast.walk(e))

    def value_defs(f):
        """single-assignment locals of f whose definition IS their value wherever they are read: not containers that are filled / changed in place afterwards"""
        changed = {x.func.value.id for x in ast.walk(f) if isinstance(x, ast.Call) and isinstance(x.func, ast.Attribute) and isinstance(x.func.value, ast.Name)
                   and x.func.attr in ("append", "extend", "insert", "remove", "pop", "clear", "add", "discard", "update", "sort", "reverse", "setdefault", "popitem")}
        changed |= {x.value.id for x in ast.walk(f) if isinstance(x, ast.Subscript) and isinstance(x.ctx, (ast.Store, ast.Del)) and isinstance(x.value, ast.Name)}
        return {k_: v_ for k_, v_ in local_defs(f).items() if k_ not in changed}

    def truth_on(test, binds, me=None):
        """truth of an extracted condition with some names bound to representative values (None if it is not evaluable on them)"""
        def no_answer(e_, f_):
            raise _CannotRun("the condition asks the filters")

        it = _ElemInterp(repo, element_special(no_answer, elem_methods), elem_methods)
        fr = it.frame(ldr, P, me if me is not None else minieval.Record())
        fr.update(binds)
        try:
            return bool(it.val(test, fr))
        except (minieval.CannotEval, _CannotRun, _Raised):
            return None

    _kinds = {}

    def elem_test_kind(a, obj, defs=None):
        """what an atomic condition says about the schedule element `obj`: 'empty' / 'nonempty' (true exactly for a parallel element without / with sub-tasks), 'parallel' / 'leaf'
        (true exactly for that class of element), 'other' (evaluable, none of these), None (not evaluable). Read from the spelling where it is one of the usual ones, otherwise decided on VALUES: the condition - locals in
        `defs` replaced by their definitions - is evaluated for a parallel element with 0 / 1 / 2 sub-tasks and for a leaf."""
        k = emptiness_test(a, obj)
        if k:
            return k
        neg = isinstance(a, ast.UnaryOp) and isinstance(a.op, ast.Not)
        if _pat.is_(a.operand if neg else a, *(p_.format(obj) for p_ in PARALLEL_TESTS)):
            return "leaf" if neg else "parallel"
        a2 = source.inline_node(a, defs) if defs else a
        key = (u(a2), obj)
        if key in _kinds:
            return _kinds[key]
        res = None
        if obj.isidentifier() and any(isinstance(x, ast.Name) and x.id == obj for x in ast.walk(a2)) and not mentions_match(a2):
            try:
                try:
                    on_par = [[truth_on(a2, {obj: parallel_with(n_, c_)}) for n_ in (0, 1, 2)] for c_ in (_NOHOOK, 3)]  # client count derived from the sub-tasks / given explicitly
                except _CannotRun:
                    on_par = [[truth_on(a2, {obj: parallel_with(n_)}) for n_ in (0, 1, 2)]]
                on_leaf = truth_on(a2, {obj: representative("leaf")})
            except _CannotRun:
                on_par, on_leaf = [[None, None, None]], None  # no representative parallel element can be built: nothing is decided by value
            if all(r_ == [True, False, False] for r_ in on_par):
                res = "empty"
            elif all(r_ == [False, True, True] for r_ in on_par):
                res = "nonempty"
            elif all(r_ == [True, True, True] for r_ in on_par) and on_leaf is False:
                res = "parallel"
            elif all(r_ == [False, False, False] for r_ in on_par) and on_leaf is True:
                res = "leaf"
            elif all(v_ is not None for r_ in on_par for v_ in r_):
                res = "other"  # a condition on the element that is evaluable on every representative and is neither of the above
        _kinds[key] = res
        return res

    def match_run(env, vec):
        """the truth of what the match routine RETURNS, interpreted on values (helpers of the processor followed): self as the constructor leaves it for this mode with one probe
        filter per entry of vec in the filters attribute, the element a representative leaf / parallel element whose `.matches(<probe i>)` answers vec[i]"""
        probes = [_Elem("filter", idx=i) for i in range(len(vec))]
        if env["parallel"]:
            elem = parallel_with(1)  # its only leaf: matched by exactly the filters the element is matched by
        else:
            elem = representative("leaf")
        it = _ElemInterp(repo, element_special(lambda e_, f_: vec[f_.fields["idx"]], elem_methods), elem_methods)
        me = minieval.Record(**it.class_consts(ldr, P))
        st = states.get((not env["exclude"], env["exclude"]))  # only the include list / only the exclude list given
        if run_err is None and st is not None and st[0] != "raise" and mattr in st[2]:
            me.fields.update({k_: v_ for k_, v_ in st[2].items() if not isinstance(v_, (list, dict, set))})
            me.fields[mattr] = st[2][mattr]  # the VALUE the constructor stores (a comparison `matched == self.<mode>` depends on more than its truth)
        elif mode_truth is not None:
            me.fields[mattr] = mode_truth[env["exclude"]]
        else:
            raise _CannotRun(f"the meaning of self.{mattr} could not be derived from the constructor")
        me.fields[fattr] = tuple(probes) if st is not None and isinstance(st[2].get(fattr), tuple) else probes
        return bool(it.invoke(fo, None, it.frame(ldr, P, me), True, argv={tp: elem}))

    def match_decide(env, vec):
        try:
            return match_run(env, vec)
        except _Raised as e:
            raise Unsupported(f"the routine raises {e.text} for per-filter results {vec}")
        except (_CannotRun, minieval.CannotEval) as e1:
            try:
                return match_eval(foX, tp, env, vec)  # read as a scan over the filters with symbolic atoms instead
            except (Unsupported, UnknownAtom) as e2:
                raise Unsupported(f"not interpretable on representative values ({e1}) and not read as a scan over the filters either ({e2})")

    for exclude, parallel, match in itertools.product([False, True], repeat=3):
        env = {"exclude": exclude, "parallel": parallel, "match": match}
        inst = f"{'exclude' if exclude else 'include'}, {'parallel' if parallel else 'leaf'}, {'some filter matches' if match else 'no filter matches'}"
        want = ((not exclude) and (not match)) if parallel else (match == exclude)
        try:
            got_v = [(vec, match_decide(env, vec)) for vec in VECS if any(vec) == match]  # every vector of per-filter results with this `some filter matches`
        except (Unsupported, UnknownAtom) as e:
            chk.unknown("O11.1", f"{fo.name} is not a decision over (exclude, parallel, per-filter match results): {e}", fo)
            continue
        wrong = [(vec, g_) for vec, g_ in got_v if g_ != want]
        chk.ob("O11.1", inst, not wrong, fo, f"removes: {want if not wrong else wrong[0][1]}; documented: {want}" + (f" (filters match: {wrong[0][0]})" if wrong else ""),
               key=f"{_L}:_filter_out_match:{exclude}|{parallel}|{match}")
    # mode selection, decided on VALUES over (include list given?, exclude list given?): which list the filters are built from and which mode is set
    optc = {a.value for g in pclosure(init) for c in ast.walk(g) if isinstance(c, ast.Call) for a in list(c.args) + [k.value for k in c.keywords] if isinstance(a, ast.Constant) and a.value in OPTS}
    if not optc:
        raise AnchorMissing("the constructor reads neither include.tasks nor exclude.tasks")
    chk.ob("O11.1", "include / exclude lists read from the options include.tasks / exclude.tasks", optc == set(OPTS), init, f"read: {sorted(optc)}")
    if run_err is not None:
        chk.unknown("O11.1", f"the constructor is not interpretable on the two option lists: {run_err}", init)
    for k_ in (() if run_err is not None else itertools.product([True, False], repeat=2)):
        inc_given, exc_given = k_
        kind, text, fields = states[k_]
        inst = f"include list {'given' if inc_given else 'absent'}, exclude list {'given' if exc_given else 'absent'} => {'include' if inc_given else 'exclude'} mode on that list"
        key = f"{_L}:TaskFilterTrackProcessor.__init__:mode:{inc_given}|{exc_given}"
        if kind == "raise":
            chk.ob("O11.1", inst, False, init, f"the constructor raises {text}", key=key)
            continue
        try:
            fl = built(fields)
        except _CannotRun as e:
            chk.unknown("O11.1", f"mode selection: {e}", init)
            continue
        want_fl = [("TaskNameFilter", "i")] if inc_given else ([("TaskNameFilter", "e")] if exc_given else [])
        mv = modeval[k_]
        if MISSING in (a_inc, b_exc) or (fl and mv is MISSING):
            chk.unknown("O11.1", f"mode selection: self.{mattr} is not evaluable after the constructor", init)
            continue
        # the mode attribute separates the two modes; with both lists given include wins; without any filter the mode is never consulted
        mode_ok = bool(a_inc) != bool(b_exc) and (not fl or bool(mv) == bool(a_inc if inc_given else b_exc))
        chk.ob("O11.1", inst, fl == want_fl and mode_ok, init, f"{mattr} := {'?' if mv is MISSING else repr(mv)} (include list alone: {a_inc!r}, exclude list alone: {b_exc!r}); filters built: {fl}", key=key)
    # spec parsing, decided on VALUES end to end (option value -> filters of the processor): split on ':', the parts handed on verbatim (case preserved), one filter per item in list order
    SAMPLES = [("Bulk-EU", ("TaskNameFilter", "Bulk-EU")), ("type:followerStats", ("TaskOpTypeFilter", "followerStats")), ("tag:regionEU", ("TaskTagFilter", "regionEU")),
               ("kind:x", ("raise", None)), ("a:b:c", ("raise", None)), ("Type:search", ("raise", None)),
               # the value is the text AFTER the colon, whatever characters it begins / ends with: values that begin or end with characters of the keyword, that repeat the keyword,
               # that name the OTHER keyword, and a task NAME that spells a keyword (seeded/C11-m17: a character-set strip / a textual replace eats into such values)
               ("type:put-pipeline-type", ("TaskOpTypeFilter", "put-pipeline-type")), ("tag:geo-agg-tag", ("TaskTagFilter", "geo-agg-tag")),
               ("type:type", ("TaskOpTypeFilter", "type")), ("tag:tag", ("TaskTagFilter", "tag")), ("type:tag", ("TaskOpTypeFilter", "tag")), ("tag:type", ("TaskTagFilter", "type")),
               ("type", ("TaskNameFilter", "type")), ("tag", ("TaskNameFilter", "tag"))]

    def parsed(items, as_include):
        kind, text, fields = init_state(items if as_include else None, None if as_include else items)
        return ("raise", text) if kind == "raise" else ("filters", built(fields))

    for text, (wk, wv) in SAMPLES:
        want_p = "raise" if wk == "raise" else [(wk, wv)]
        try:
            got_p = [parsed([text], r_) for r_ in (True, False)]
        except (_CannotRun, minieval.CannotEval) as e:
            chk.unknown("O11.1", f"spec parsing is not interpretable on the item {text!r}: {e}", ff)
            break
        ok = all((g_[0] == "raise") if want_p == "raise" else (g_ == ("filters", want_p)) for g_ in got_p)
        bad_p = next((g_ for g_ in got_p if not ((g_[0] == "raise") if want_p == "raise" else (g_ == ("filters", want_p)))), got_p[0])
        got = f"raise {str(bad_p[1])[:50]}" if bad_p[0] == "raise" else (", ".join(f"{c_}({v_!r})" for c_, v_ in bad_p[1]) or "no filter")
        chk.ob("O11.1", f"spec parsing: item {text!r} => {wk}{'(' + repr(wv) + ')' if wv else ''}", ok, ff, f"got {got}", key=f"{_L}:_filters_from_filtered_tasks:item:{text}")
    else:
        seq = ["Bulk-EU", "type:followerStats", "tag:regionEU", "Bulk-EU"]
        want_p = [(wk, wv) for t_ in seq for x_, (wk, wv) in SAMPLES if x_ == t_]
        try:
            got_p = parsed(seq, True)
            chk.ob("O11.1", "spec parsing: every item of the list yields its filter, in list order (duplicates kept)", got_p == ("filters", want_p), ff,
                   f"{seq} => {got_p[1]}" + ("" if got_p == ("filters", want_p) else ": filters of later items are lost / reordered - tasks only they select are filtered wrongly"),
                   key=f"{_L}:_filters_from_filtered_tasks:all-items")
        except (_CannotRun, minieval.CannotEval) as e:
            chk.unknown("O11.1", f"spec parsing is not interpretable on a list of several items: {e}", ff)
    # filter classes, INTERPRETED on representative tasks: constructed on v, matches(task) holds exactly when v is the task's name / the type of its operation / one of its tags
    R_ = minieval.Record
    TASKS = [R_(name="index-eu", operation=R_(type="bulk", name="index-op"), tags=["regionEU", "write"]),
             R_(name="bulk", operation=R_(type="search", name="index-eu"), tags=["bulk-tag"]),
             R_(name="search", operation=R_(type="search", name="q"), tags=[])]
    VALUES = ["index-eu", "bulk", "search", "index-op", "q", "regionEU", "write", "bulk-tag", "index", "region", "regionEU,write", "tag", "Index-EU", "BULK", "regioneu", " bulk", "search ", ""]
    CASEWS = ("Index-EU", "BULK", "regioneu", " bulk", "search ")
    EXPECT = {"TaskNameFilter": lambda v, t: t.fields["name"] == v, "TaskOpTypeFilter": lambda v, t: t.fields["operation"].fields["type"] == v, "TaskTagFilter": lambda v, t: v in t.fields["tags"]}

    def filter_matches(c, v, t):
        """<c>(v).matches(t), interpreted"""
        it = _Interp(repo)
        me = R_(**it.class_consts(trk, c))
        fr = it.frame(trk, c, me)
        ini, m = trk.methods(c).get("__init__"), trk.methods(c).get("matches")
        if ini is not None and len(params_of(ini)) == 2:
            it.invoke(ini, None, fr, True, argv={params_of(ini)[1]: v})
        elif ini is None and any((dotted(d_.func if isinstance(d_, ast.Call) else d_) or "").split(".")[-1] == "dataclass" for d_ in c.decorator_list):
            flds = [s_.target.id for s_ in c.body if isinstance(s_, ast.AnnAssign) and isinstance(s_.target, ast.Name)]
            if len(flds) != 1:
                raise _CannotRun(f"{c.name}: {len(flds)} dataclass fields")
            me.fields[flds[0]] = v
        else:
            raise _CannotRun(f"{c.name}: no one-argument constructor")
        if m is None or len(params_of(m)) != 2:
            raise _CannotRun(f"{c.name}.matches(self, <task>) not found")
        return bool(it.invoke(m, None, fr, True, argv={params_of(m)[1]: t}))

    for cname in ("TaskNameFilter", "TaskOpTypeFilter", "TaskTagFilter"):
        c = trk.cls(cname)
        m = trk.methods(c).get("matches")
        site = m if m is not None else c
        try:
            wrong = [(v, t) for v in VALUES for t in TASKS if filter_matches(c, v, t) != EXPECT[cname](v, t)]
        except (_CannotRun, minieval.CannotEval, _Raised) as e:
            chk.unknown("O11.1", f"{cname} is not interpretable on representative tasks: {e}", site)
            continue
        exact = [w for w in wrong if w[0] in CASEWS]  # the samples that differ from a field of the task only by case / surrounding whitespace
        other = [w for w in wrong if w[0] not in CASEWS]

        def show(w):
            t = w[1].fields
            return f"{cname}({w[0]!r}).matches(task name={t['name']!r}, operation type={t['operation'].fields['type']!r}, tags={t['tags']!r}) is {not EXPECT[cname](*w)}"

        chk.ob("O11.1", f"{cname}.matches", not other, site, show(other[0]) if other else "")
        chk.ob("O11.1", f"{cname} stores its argument", not exact, trk.methods(c).get("__init__") or c, show(exact[0]) + ": the argument is not kept verbatim" if exact else "")
    # a parallel element matches iff some leaf matches: Parallel.matches EVALUATED on representative leaf results (no leaf, one, several, match first / last / never)
    PA = trk.cls("Parallel")
    pmt = trk.methods(PA).get("matches")
    if pmt is None or len(params_of(pmt)) < 2:
        raise AnchorMissing("Parallel.matches(self, <filter>)")
    fparam = params_of(pmt)[1]

    def leaf_call(n, var):
        return isinstance(n, ast.Call) and last_attr(n.func) == "matches" and isinstance(n.func.value, ast.Name) and n.func.value.id == var and len(n.args) == 1 and u(n.args[0]) == fparam

    def parallel_matches(lv):
        """truth of Parallel.matches(<filter>) for leaves whose own matches(<filter>) answer lv: interpreted on values; read as a scan over the leaves otherwise"""
        try:
            me = representative("parallel", sub=[representative("leaf", idx=i) for i in range(len(lv))])
            it = _ElemInterp(repo, element_special(lambda e_, f_: lv[e_.fields["idx"]], elem_methods), elem_methods)
            return bool(it.invoke(pmt, None, it.frame(trk, PA, me), True, argv={fparam: _Elem("filter")}))
        except _Raised as e:
            raise Unsupported(f"raises {e.text} for leaf match results {lv}")
        except (_CannotRun, minieval.CannotEval) as e1:
            try:
                return scan_eval(pmt.body, lambda e: is_self_attr(strip_sel(e), "tasks") or u(strip_sel(e)) == "self", leaf_call, lambda n: None, lv)
            except (Unsupported, UnknownAtom) as e2:
                raise Unsupported(f"not interpretable on representative leaves ({e1}) and not read as a scan over the leaves either ({e2})")

    try:
        wrong = [lv for lv in VECS if parallel_matches(lv) != any(lv)]
        chk.ob("O11.1", "a parallel element matches iff some leaf matches", not wrong, pmt, "" if not wrong else f"wrong result for leaf match results {wrong[0]}: {not any(wrong[0])}")
    except (Unsupported, UnknownAtom) as e:
        chk.unknown("O11.1", f"Parallel.matches is not a decision over the leaf match results: {e}", pmt)
    TK = trk.cls("Task")
    tinit = trk.methods(TK).get("__init__")
    if tinit is None or "tags" not in params_of(tinit):
        raise AnchorMissing("Task.__init__(..., tags, ...)")
    tag_stores = [n for n in walk_body(tinit) if isinstance(n, ast.Assign) and any(is_self_attr(t, "tags") for t in n.targets)]

    def tags_after_init(value):
        """self.tags after Task.__init__ for one concrete `tags` argument, INTERPRETED (whatever the shape / polarity / arm order of the normalising code, also behind a helper)"""
        it = _Interp(repo)
        me = minieval.Record(**it.class_consts(trk, TK))
        argv = {"tags": value}
        for p_ in params_of(tinit)[1:3]:
            argv.setdefault(p_, minieval.Record(name="t", type="bulk"))  # name / operation: opaque
        it.invoke(tinit, None, it.frame(trk, TK, me), True, argv=argv)
        if "tags" not in me.fields:
            raise _CannotRun(f"self.tags is not stored / not evaluable for tags={value!r}")
        return me.fields["tags"]

    try:
        got_t = {k_: tags_after_init(v_) for k_, v_ in (("str", "regionEU"), ("list", ["regionEU", "write"]), ("none", None))}
        seq_ok = all(isinstance(v_, (list, tuple, set, frozenset)) for v_ in got_t.values())
        wrap = seq_ok and list(got_t["str"]) == ["regionEU"] and sorted(got_t["list"]) == ["regionEU", "write"] and len(got_t["none"]) == 0
        det_t = "" if wrap else (f"tags='regionEU' is stored as {got_t['str']!r}: tags may stay a plain string: `tag in task.tags` becomes a substring test" if list(got_t["str"]) != ["regionEU"] or not seq_ok
                                 else f"tags=['regionEU', 'write'] is stored as {got_t['list']!r}, tags=None as {got_t['none']!r}")
        chk.ob("O11.1", "a single tag given as a string is wrapped into a list (tag filter is membership, not substring)", bool(wrap), tag_stores[0] if tag_stores else tinit, det_t)
    except _Raised as e:
        chk.ob("O11.1", "a single tag given as a string is wrapped into a list (tag filter is membership, not substring)", False, tag_stores[0] if tag_stores else tinit, f"Task.__init__ raises {e.text}")
    except (_CannotRun, minieval.CannotEval) as e:
        chk.unknown("O11.1", f"Task.__init__ is not interpretable on representative `tags` arguments: {e}", tinit)
    # Task.matches hands the decision to the filter: INTERPRETED with a filter whose matches() answer is fixed - the task returns that answer and passes ITSELF
    tm = trk.methods(TK).get("matches")
    if tm is None or len(params_of(tm)) != 2:
        raise AnchorMissing("Task.matches(self, <filter>)")
    try:
        wrong = None
        for answer in (True, False):
            probe, asked = minieval.Record(kind="filter"), []

            def special(call, env, it, probe=probe, asked=asked, answer=answer):
                if isinstance(call.func, ast.Attribute) and call.func.attr == "matches" and len(call.args) == 1 and not call.keywords:
                    try:
                        recv = it.val(call.func.value, env)
                    except minieval.CannotEval:
                        return _NOHOOK
                    if recv is probe:
                        try:
                            asked.append(it.val(call.args[0], env))
                        except minieval.CannotEval:
                            asked.append(None)  # something else than the task itself (an attribute of it, a copy)
                        return answer
                return _NOHOOK

            it = _Interp(repo, special)
            me = minieval.Record(**it.class_consts(trk, TK))
            got = it.invoke(tm, None, it.frame(trk, TK, me), True, argv={params_of(tm)[1]: probe})
            if not (len(asked) >= 1 and all(a_ is me for a_ in asked) and isinstance(got, bool) and got == answer):
                wrong = wrong or (f"the filter answers {answer}, Task.matches returns {got!r}" if asked else "the filter is never asked") + ("" if all(a_ is me for a_ in asked) else " (asked about another object than the task)")
        chk.ob("O11.1", "Task.matches delegates to the filter", wrong is None, tm, wrong or "")
    except (_CannotRun, minieval.CannotEval, _Raised) as e:
        chk.unknown("O11.1", f"Task.matches is not interpretable with a probe filter: {e}", tm)

    # ---- O11.2 no empty parallel survives ----------------------------------------------------------------------------------------------------------
    chk.rule("O11.2", "every site that can shrink a parallel element is followed, on every path that keeps the element, by an emptiness test of that element whose empty edge removes it from the challenge; "
             "the schema forbids empty `tasks` on load", 3,
             "--exclude-tasks matching every task of a parallel element (also through several filters that only together cover it) leaves an empty parallel element in the schedule")

    # the hook read TOGETHER with the helpers extracted from it (the match routine stays a call: it is the atomic condition of the rules below)
    def oa_resolve(call):
        h = helper_of(call)
        return h if h is not None and h is not oa and h is not init and not any(h is g for g in fo_slice) else None

    oaX, exp_ids, failed_ids = inline_helpers(oa, oa_resolve, parent=P)
    oa_slice = pclosure(oa)
    inlined = [h for h in oa_slice if id(h) in exp_ids and id(h) not in failed_ids]  # helpers that only exist inside oaX now
    separate = [h for h in oa_slice if h is not oa and not any(h is g for g in inlined) and not any(h is g for g in fo_slice)]  # helpers still behind a call

    def is_challenge_receiver(c):
        """the receiver of this remove_task call is a CHALLENGE (not a schedule element), decided by role: a parameter called `challenge`, the loop variable of a loop over
        `<x>.challenges`, or a name whose `.schedule` is iterated in the same function (only challenges have a schedule that is iterated element-wise)."""
        r_ = c.func.value
        if not isinstance(r_, ast.Name):
            return False
        fn_ = source.enclosing_func(c)
        if fn_ is None:
            return False
        if r_.id == "challenge" and r_.id in params_of(fn_):
            return True
        for a in source.ancestors(c):
            if isinstance(a, ast.For) and isinstance(a.target, ast.Name) and a.target.id == r_.id and isinstance(strip_sel(a.iter), ast.Attribute) and strip_sel(a.iter).attr == "challenges":
                return True
        return any(isinstance(n, (ast.For, ast.comprehension)) and isinstance(strip_sel(n.iter), ast.Attribute) and strip_sel(n.iter).attr == "schedule" and isinstance(strip_sel(n.iter).value, ast.Name)
                   and strip_sel(n.iter).value.id == r_.id for n in ast.walk(fn_))

    def filter_store(n):
        """(owner, container attribute, variable, keep-conditions) if the statement rebuilds `<owner>.tasks` / `<owner>.schedule` as a filtering comprehension over itself - the kept
        elements stay the same objects in the same order: a removal written as a store"""
        if not (isinstance(n, ast.Assign) and len(n.targets) == 1 and isinstance(n.targets[0], ast.Attribute) and n.targets[0].attr in ("tasks", "schedule")):
            return None
        t, v = n.targets[0], n.value
        if isinstance(v, ast.Call) and dotted(v.func) == "list" and len(v.args) == 1 and isinstance(v.args[0], ast.GeneratorExp):
            v = v.args[0]
        elif not isinstance(v, ast.ListComp):
            return None
        if len(v.generators) != 1 or v.generators[0].is_async:
            return None
        g = v.generators[0]
        if not (isinstance(g.target, ast.Name) and isinstance(v.elt, ast.Name) and v.elt.id == g.target.id and u(strip_sel(g.iter)) in (u(t), u(t.value))):
            return None
        return t.value, t.attr, g.target.id, [a for c_ in g.ifs for a in conjuncts(c_)]

    shrink = [c for c in package_calls(repo, "remove_task") if source.enclosing_func(c) is not oa and not any(source.enclosing_func(c) is h for h in inlined)]
    shrink += [c for c in ast.walk(oaX) if isinstance(c, ast.Call) and last_attr(c.func) == "remove_task"]
    shrink = [c for c in shrink if isinstance(c.func, ast.Attribute) and not is_challenge_receiver(c)]
    shrink = [(c, c.func.value) for c in shrink if source.enclosing_class(c) is not None and source.enclosing_class(c).name != "Parallel"]
    fstores = [(n, filter_store(n)) for f in [oaX] + separate for n in ast.walk(f) if filter_store(n) is not None]
    shrink += [(n, fs_[0]) for n, fs_ in fstores if fs_[1] == "tasks"]  # `<element>.tasks = [t for t in <element>.tasks if ...]` shrinks the element, too
    for n, fs_ in fstores:
        if fs_[1] == "schedule":
            chk.unknown("O11.2", f"the schedule is rebuilt by a filtering comprehension ({short(n, 60)}): which elements stay is not read from this shape", n)
    if not shrink:
        raise AnchorMissing("call site removing a sub-task from a parallel element")
    for c, recv_ in shrink:
        fn = source.enclosing_func(c)
        gfn = cfg_of(fn)
        obj = u(recv_)
        # the enclosing loop over the schedule
        outer = [a for a in source.ancestors(c) if isinstance(a, ast.For) and isinstance(a.target, ast.Name) and a.target.id == obj]
        if not outer:
            # the element is not a loop variable here (it arrives as a parameter of a helper that could not be read together with its caller): nothing is known about what follows
            chk.unknown("O11.2", f"{source.qualname(c)}: the shrink site of `{obj}` is not inside a loop over the schedule elements (helper not expandable into its caller)", c)
            continue
        OL = outer[0]
        parallel_tests = [p_.format(obj) for p_ in PARALLEL_TESTS]

        def removing(arm):
            return [x for s in arm for x in ast.walk(s) if isinstance(x, ast.Call) and last_attr(x.func) in ("append", "remove_task", "remove") and x.args and u(x.args[0]) == obj]

        # an emptiness test is an `if` one of whose ARMS (true arm: the test; false arm: its negation) is entered WHENEVER the element is an emptied parallel element - some disjunct
        # of the arm's condition consists of nothing but emptiness tests / parallel tests of the element -, and that arm removes the element -- whichever arm it is and however
        # the test is written (also as one alternative of `<removed by the filters> or <emptied>`)
        cn = gfn.node_of(c)
        head = gfn.node_of(OL)
        # locals that are computed AFTER the shrink (single assignment inside the loop, the shrink site not reachable from it within the same iteration): a test on such a local
        # is a test on the element as the shrink left it (`remaining = len(task.tasks)` / `emptied = isinstance(..) and not task.tasks`); a local computed before is stale
        all_defs = value_defs(fn)
        fresh_defs = {}
        for nm_, val_ in all_defs.items():
            st_ = source.enclosing_stmt(val_)
            if isinstance(st_, ast.Assign) and any(a_ is OL for a_ in source.ancestors(st_)):
                sn_ = gfn.node_of(st_)
                if sn_ is not None and cn.id not in gfn.reachable([gfn.nodes[y] for y, lab in gfn.succ[sn_.id]], avoid=[head]):
                    fresh_defs[nm_] = val_
        tests, arms, strange = [], {}, []
        for n in ast.walk(OL):
            if isinstance(n, ast.If):
                for arm, cond in ((n.body, n.test), (n.orelse, negate(n.test))):
                    if not (arm and removing(arm)):
                        continue
                    hit = False
                    for fs in (dnf(cond) or []):
                        kinds = [elem_test_kind(a, obj, fresh_defs) for a in fs]
                        hit = hit or ("empty" in kinds and all(k in ("empty", "parallel") for k in kinds))
                        # a condition on the element itself (not on what the filters say) that is neither an emptiness nor a class test: possibly an emptiness test in a
                        # spelling that is not read - the verdict below is then `not recognised`, not `no test`
                        # (a test that WOULD be one on a local computed before the shrink is stale, not unread: it does not count as a test and the rule is falsified)
                        # (an alternative that HAS a recognised emptiness test plus anything else is a located test with a further condition: falsified below, as before)
                        strange += [a for a, k in zip(fs, kinds) if "empty" not in kinds and k is None and elem_test_kind(a, obj, all_defs) is None and not mentions_match(source.inline_node(a, all_defs))
                                    and any(isinstance(x, ast.Name) and x.id == obj for x in ast.walk(source.inline_node(a, all_defs)))]
                    if hit:
                        tests.append(n)
                        arms[id(n)] = arm
                        break
        tn = [gfn.node_of(t) for t in tests]
        # every path from the shrink to the next outer iteration passes the emptiness test
        ok = bool(tn) and head.id not in gfn.reachable([gfn.nodes[y] for y, lab in gfn.succ[cn.id] if gfn.normal_edge(cn.id, y, lab)], avoid=tn, edge_ok=gfn.normal_edge)
        # ... or the emptied elements are removed in a pass of its own AFTER the loop: `for v in [w for w in <same schedule> if <emptied w>]: <remove v>` (the comprehension also
        # through a local), or a further loop over (a copy of) the same schedule with such an `if`; every path from the shrink to the next challenge / the end passes it
        def hit_for(cond, var):
            return any("empty" in ks and all(k in ("empty", "parallel") for k in ks) for fs in (dnf(cond) or []) for ks in [[elem_test_kind(a, var, all_defs) for a in fs]])

        def removes(loop):
            return any(isinstance(x, ast.Call) and last_attr(x.func) in ("remove_task", "remove") and len(x.args) == 1 and u(x.args[0]) == loop.target.id for s_ in loop.body for x in ast.walk(s_))

        sweeps = []
        if not ok:
            for n in ast.walk(fn):
                if not (isinstance(n, ast.For) and isinstance(n.target, ast.Name) and n is not OL and removes(n)) or any(a_ is OL for a_ in source.ancestors(n)):
                    continue
                it_ = n.iter
                while isinstance(it_, ast.Call) and dotted(it_.func) in ("list", "tuple") and len(it_.args) == 1:
                    it_ = it_.args[0]
                if isinstance(it_, ast.Name) and it_.id in all_defs:
                    it_ = all_defs[it_.id]
                if isinstance(it_, (ast.ListComp, ast.GeneratorExp)) and len(it_.generators) == 1 and isinstance(it_.generators[0].target, ast.Name) and isinstance(it_.elt, ast.Name) \
                        and it_.elt.id == it_.generators[0].target.id and u(strip_sel(it_.generators[0].iter)) == u(strip_sel(OL.iter)) and it_.generators[0].ifs:
                    g_ = it_.generators[0]
                    if hit_for(ast.BoolOp(op=ast.And(), values=list(g_.ifs)) if len(g_.ifs) != 1 else g_.ifs[0], g_.target.id):
                        sweeps.append(n)
                elif u(strip_sel(it_)) == u(strip_sel(OL.iter)):
                    for i_ in [x for x in ast.walk(n) if isinstance(x, ast.If)]:
                        for arm, cond in ((i_.body, i_.test), (i_.orelse, negate(i_.test))):
                            if arm and hit_for(cond, n.target.id) and any(isinstance(x, ast.Call) and last_attr(x.func) in ("remove_task", "remove") and len(x.args) == 1 and u(x.args[0]) == n.target.id
                                                                           for s_ in arm for x in ast.walk(s_)):
                                sweeps.append(n)
            if sweeps:
                r_ = gfn.reachable([gfn.nodes[y] for y, lab in gfn.succ[cn.id] if gfn.normal_edge(cn.id, y, lab)], avoid=[gfn.node_of(w) for w in sweeps], edge_ok=gfn.normal_edge)
                outer_heads = [gfn.node_of(a_) for a_ in source.ancestors(OL) if isinstance(a_, (ast.For, ast.While))]
                if gfn.exit.id not in r_ and not any(h_.id in r_ for h_ in outer_heads):
                    chk.ob("O11.2", f"{source.qualname(c)}: emptiness test after shrinking {obj}", True, c, f"{len(sweeps)} pass(es) after the loop remove the emptied parallel elements",
                           key=f"{_L}:{source.qualname(c)}:empty-check-after-shrink")
                    chk.ob("O11.2", "collected elements are removed from the challenge", True, sweeps[0], "the emptied elements are removed in a pass of their own")
                    continue
        if not tests and any(fs_[1] == "schedule" and source.enclosing_func(n) is fn for n, fs_ in fstores):
            chk.unknown("O11.2", f"{source.qualname(c)}: the schedule is rebuilt by a filtering comprehension - whether it drops the emptied `{obj}` is not read from this shape", c)
            continue
        if not ok and strange:
            chk.unknown("O11.2", f"{source.qualname(c)}: `{obj}` is removed under the condition `{short(strange[0], 60)}`, which is not recognised as a test for an emptied parallel element "
                        "(nor as anything else)", strange[0])
            continue
        chk.ob("O11.2", f"{source.qualname(c)}: emptiness test after shrinking {obj}", ok, c,
               f"{len(tests)} emptiness test(s) with a removing empty-edge" + ("" if ok else "; a path keeps a possibly emptied parallel element in the schedule"),
               key=f"{_L}:{source.qualname(c)}:empty-check-after-shrink")
        # the collected elements are really removed from the challenge afterwards
        if tests:
            coll = [x for x in removing(arms[id(tests[0])]) if last_attr(x.func) == "append"]
            if not coll:
                direct = [x for x in removing(arms[id(tests[0])]) if last_attr(x.func) in ("remove_task", "remove")]
                chk.ob("O11.2", "collected elements are removed from the challenge", bool(direct), direct[0] if direct else tests[0], "the emptied element is removed at once" if direct else "")
            else:
                lst = u(coll[0].func.value)
                names_ = {lst}  # the list and the names it is handed on to by plain assignment (x = lst; a helper's `return lst` expanded into `x = lst`)
                for _ in range(4):
                    names_ |= {t_.id for n in ast.walk(fn) if isinstance(n, ast.Assign) and isinstance(n.value, ast.Name) and n.value.id in names_ for t_ in n.targets if isinstance(t_, ast.Name)}
                rm = [n for n in ast.walk(fn) if isinstance(n, (ast.For, ast.comprehension)) and u(strip_sel(n.iter)) in names_ and isinstance(n.target, ast.Name) and any(
                    isinstance(x, ast.Call) and last_attr(x.func) in ("remove_task", "remove") and x.args and u(x.args[0]) == n.target.id
                    for x in ast.walk(n if isinstance(n, ast.For) else source.parent(n)))]
                escapes = [x for x in ast.walk(fn) if isinstance(x, ast.Call) and not is_logging_call(x) and last_attr(x.func) not in ("len", "append") and any(u(a_) in names_ for a_ in list(x.args) + [k.value for k in x.keywords])]
                escapes += [x for x in ast.walk(fn) if isinstance(x, ast.Return) and x.value is not None and u(x.value) in names_]
                # any other read of the list (a membership test in a comprehension that rebuilds the schedule, ...) is a use this rule does not follow
                other_use = [x for x in ast.walk(fn) if isinstance(x, ast.Name) and x.id in names_ and isinstance(x.ctx, ast.Load) and not is_logging_stmt(source.enclosing_stmt(x))
                             and not (isinstance(source.parent(x), ast.Attribute) and source.parent(x).attr == "append")
                             and not (isinstance(source.parent(x), ast.Call) and dotted(source.parent(x).func) == "len")
                             and not (isinstance(source.parent(x), ast.Assign) and source.parent(x).value is x)
                             and not any(isinstance(n, ast.For) and strip_sel(n.iter) is x for n in ast.walk(fn))]  # a loop over it that does not remove: inspected above
                if not rm and escapes:
                    chk.unknown("O11.2", f"the collected elements `{lst}` are handed to {short(escapes[0], 50)}: their removal from the challenge is not visible here", escapes[0])
                elif not rm and other_use:
                    chk.unknown("O11.2", f"the collected elements `{lst}` are used in `{short(source.enclosing_stmt(other_use[0]), 60)}`: their removal from the challenge is not read from this shape", other_use[0])
                else:
                    chk.ob("O11.2", "collected elements are removed from the challenge", bool(rm), coll[0], "" if rm else f"`{lst}` is filled but never used to remove its elements from the challenge")
    try:
        schema = json.loads(repo.text(_S))
        found = []

        def walk(o, path=""):
            if isinstance(o, dict):
                if "tasks" in o.get("properties", {}):
                    found.append((path, o["properties"]["tasks"].get("minItems")))
                for k, v in o.items():
                    walk(v, path + "/" + k)
            elif isinstance(o, list):
                for i, v in enumerate(o):
                    walk(v, path + f"/{i}")

        walk(schema)
        if not found:
            chk.unknown("O11.2", "no object with a `tasks` property in the track schema", _S)
        else:
            chk.ob("O11.2", "schema: parallel.tasks has minItems >= 1", all(mi is not None and mi >= 1 for _, mi in found), _S, f"{found}")
    except ValueError as e:
        chk.unknown("O11.2", f"track schema does not parse: {e}", _S)

    # ---- O11.3 filter only removes ------------------------------------------------------------------------------------------------------------------------
    chk.rule("O11.3", "the processor performs no attribute store on task/operation objects, mutates schedules only through remove_task, and removes after iterating (never while iterating the same list)", 3,
             "surviving tasks lose properties / order changes / tasks are skipped by mutation during iteration")
    scope = fo_slice + [oaX] + separate  # the match routine with its helpers, the hook with the helpers expanded into it, the helpers still behind a call
    # which names can hold a piece of the TRACK (the track, a challenge, a schedule element, a leaf, a list of those) - by data flow from the parameters; the processor's own
    # attributes (a counter, a log helper) and freshly built local containers are not part of the track
    WRAP = ("list", "reversed", "sorted", "tuple", "iter", "enumerate", "set", "filter")

    def root_name(e):
        while True:
            if isinstance(e, (ast.Attribute, ast.Subscript, ast.Starred)):
                e = e.value
            elif isinstance(e, ast.Call) and dotted(e.func) in WRAP and e.args:
                e = e.args[-1]
            elif isinstance(e, ast.Call) and isinstance(e.func, ast.Attribute) and e.func.attr in ("copy", "values", "items"):
                e = e.func.value
            else:
                return e.id if isinstance(e, ast.Name) else None

    def track_names(f):
        t = {p_ for p_ in params_of(f) + [a.arg for a in f.args.kwonlyargs] if p_ not in ("self", "cls")}
        fresh_ = set()
        for _ in range(6):
            for n in ast.walk(f):
                if isinstance(n, (ast.For, ast.comprehension)) and root_name(n.iter) in t:
                    t |= {x.id for x in ast.walk(n.target) if isinstance(x, ast.Name)}
            for n in ast.walk(f):
                if isinstance(n, ast.Assign):
                    v = n.value
                    comp = isinstance(v, (ast.ListComp, ast.SetComp, ast.GeneratorExp)) and root_name(v.elt) in t
                    if root_name(v) in t or comp:
                        t |= {x.id for t_ in n.targets for x in ast.walk(t_) if isinstance(x, ast.Name) and isinstance(x.ctx, ast.Store)}
                elif isinstance(n, ast.Call) and last_attr(n.func) in ("append", "add", "extend", "insert") and isinstance(n.func, ast.Attribute) and isinstance(n.func.value, ast.Name) \
                        and n.args and root_name(n.args[-1]) in t:
                    t.add(n.func.value.id)
        for nm in t:
            defs_ = [n.value for n in ast.walk(f) if isinstance(n, ast.Assign) and any(isinstance(t_, ast.Name) and t_.id == nm for t_ in n.targets)]
            if defs_ and all(isinstance(v, (ast.List, ast.ListComp, ast.Set, ast.SetComp, ast.Dict, ast.DictComp)) or (isinstance(v, ast.Call) and dotted(v.func) in WRAP + ("dict",)) for v in defs_):
                fresh_.add(nm)  # a container built here: changing IT changes nothing of the track
        return t, fresh_

    MUT = ("remove", "pop", "insert", "sort", "reverse", "clear", "extend", "prepend_tasks", "__setitem__", "__delitem__", "append")
    stores, muts = [], []
    for f in scope:
        tn_, fresh_ = track_names(f)
        for n in walk_body(f):
            if filter_store(n) is not None:
                continue  # a removal written as a store (kept elements: same objects, same order): a shrink site of O11.2 and a queue of the rule below
            if isinstance(n, (ast.Assign, ast.AugAssign)):
                for t in (n.targets if isinstance(n, ast.Assign) else [n.target]):
                    if isinstance(t, (ast.Attribute, ast.Subscript)) and ((root_name(t) in tn_ and not (isinstance(t, ast.Subscript) and isinstance(t.value, ast.Name) and t.value.id in fresh_))
                                                                         or is_self_attr(t, fattr) or is_self_attr(t, mattr)):
                        stores.append(n)
            elif isinstance(n, ast.Delete) and any(isinstance(t, (ast.Attribute, ast.Subscript)) and root_name(t) in tn_ for t in n.targets):
                stores.append(n)
            elif isinstance(n, ast.Call) and isinstance(n.func, ast.Attribute) and n.func.attr in MUT:
                r_ = n.func.value
                on_track = (isinstance(r_, (ast.Attribute, ast.Subscript)) and root_name(r_) in tn_) or (isinstance(r_, ast.Name) and r_.id in tn_ and r_.id not in fresh_)
                if on_track and not (n.func.attr == "append" and isinstance(r_, ast.Name)):
                    muts.append(n)
    chk.ob("O11.3", "no attribute/item stores in the filter", not stores, stores[0] if stores else oa, (short(stores[0], 60) + ": written on an object of the track (or on the filters / the mode of the processor)") if stores else "")
    chk.ob("O11.3", "no mutation other than remove_task / local appends", not muts, muts[0] if muts else oa, short(muts[0], 60) if muts else "")
    for c in [c for f in [oaX] + separate for c in source.calls_in(f, attr="remove_task")]:
        recv = u(c.func.value)
        its = [a.iter for a in source.ancestors(c) if isinstance(a, ast.For)] + [g.iter for a in source.ancestors(c) if isinstance(a, (ast.ListComp, ast.SetComp, ast.GeneratorExp, ast.DictComp)) for g in a.generators]
        bad = any(u(it) in (f"{recv}.schedule", recv, f"{recv}.tasks") for it in its)
        chk.ob("O11.3", f"{short(c, 40)} not while iterating {recv}", not bad, c, "")
    # challenge.remove_task / Parallel.remove_task are plain list removals, INTERPRETED on a list of three elements: afterwards the list holds the other two in their order, and
    # nothing else of the object is written
    for cname, cattr in (("Challenge", "schedule"), ("Parallel", "tasks")):
        c = trk.cls(cname)
        rt = trk.methods(c).get("remove_task")
        if rt is None or len(params_of(rt)) != 2:
            raise AnchorMissing(f"{cname}.remove_task(self, <task>)")
        side = [n for n in walk_body(rt) if isinstance(n, (ast.Assign, ast.AugAssign)) for t in (n.targets if isinstance(n, ast.Assign) else [n.target])
                if isinstance(t, (ast.Attribute, ast.Subscript)) and not is_self_attr(t, cattr)]
        if side:
            chk.ob("O11.3", f"{cname}.remove_task is a plain list removal", False, side[0], f"also writes {short(side[0], 50)}: a property of the element / of the survivors changes")
            continue
        try:
            wrong = None
            for i in range(3):
                elems = [minieval.Record(name=f"t{j}") for j in range(3)]
                it = _Interp(repo)
                me = minieval.Record(**{cattr: list(elems)})
                it.invoke(rt, None, it.frame(trk, c, me), True, argv={params_of(rt)[1]: elems[i]})
                after = me.fields.get(cattr)
                want_l = [e_ for j, e_ in enumerate(elems) if j != i]
                if not (isinstance(after, list) and len(after) == 2 and all(a_ is b_ for a_, b_ in zip(after, want_l))):
                    wrong = wrong or f"removing element {i} of [t0, t1, t2] leaves {[x.fields.get('name') if isinstance(x, minieval.Record) else x for x in after] if isinstance(after, (list, tuple)) else after!r}"
        except _Raised as e:
            wrong = f"removing an element of [t0, t1, t2] raises {e.text}"
        except (_CannotRun, minieval.CannotEval) as e:
            chk.unknown("O11.3", f"{cname}.remove_task is not interpretable on a list of three elements: {e}", rt)
            continue
        chk.ob("O11.3", f"{cname}.remove_task is a plain list removal", wrong is None, rt, wrong or "")
    # all challenges are filtered; leaves of kept parallels are filtered individually
    chl = [n for n in ast.walk(oaX) if isinstance(n, (ast.For, ast.comprehension)) and isinstance(strip_sel(n.iter), ast.Attribute) and strip_sel(n.iter).attr == "challenges"]
    if not chl:
        chk.unknown("O11.3", "no iteration over the challenges of the track in the hook (and the helpers expanded into it)", oa)
    else:
        def selects(e):
            """the iterated expression takes only SOME of the challenges (a slice other than [:], an index)"""
            while not (isinstance(e, ast.Attribute) and e.attr == "challenges"):
                if isinstance(e, ast.Subscript):
                    if not (isinstance(e.slice, ast.Slice) and e.slice.lower is None and e.slice.upper is None and e.slice.step is None):
                        return True
                    e = e.value
                elif isinstance(e, ast.Call) and e.args:
                    e = e.args[0]
                else:
                    e = e.func.value
            return False

        # the loops that FILTER (ask the match routine / remove something) - a further pass over the challenges that only counts or logs is none of this rule's business
        def filtering(n):
            body_ = n if isinstance(n, ast.For) else source.parent(n)
            return any(isinstance(x, ast.Call) and (last_attr(x.func) in ("remove_task", "remove") or (helper_of(x) is not None and any(helper_of(x) is g for g in fo_slice + separate)))
                       for x in ast.walk(body_)) or any(filter_store(x) is not None for x in ast.walk(body_))

        fl_ = [n for n in chl if filtering(n)]
        if not fl_:
            chk.unknown("O11.3", f"none of the {len(chl)} iteration(s) over the challenges asks the match routine or removes anything", chl[0] if isinstance(chl[0], ast.For) else oa)
        else:
            jumps = [x for n in fl_ if isinstance(n, ast.For) for x in ast.walk(n) if isinstance(x, ast.Return) or (isinstance(x, ast.Break) and source.enclosing(x, (ast.For, ast.While)) is n)]
            part = [n for n in fl_ if selects(n.iter)]
            ok = not jumps and not part
            chk.ob("O11.3", "every challenge is filtered (the loop over the challenges runs to the end)", ok, jumps[0] if jumps else (part[0].iter if part else oa),
                   "" if ok else ("the loop over the challenges is left early: later challenges keep their unfiltered schedule" if jumps else
                                  f"only a selection of the challenges is filtered: {short(part[0].iter, 40)}"),
                   key=f"{_L}:TaskFilterTrackProcessor.on_after_load_track:all-challenges")
    early = [n for n in walk_body(oaX) if isinstance(n, ast.Return) and guards(n)]

    def filters_test_kind(f_):
        """'empty' / 'nonempty': the condition holds exactly when the processor has no / some filters (read from the spelling, otherwise evaluated on 0 / 1 / 2 filters); else None"""
        k = emptiness_test(f_, f"self.{fattr}")
        if k or not any(is_self_attr(x, fattr) for x in ast.walk(f_)) or mentions_match(f_):
            return k
        got = [truth_on(f_, {}, minieval.Record(**{fattr: [_Elem("filter", idx=i) for i in range(n_)]})) for n_ in (0, 1, 2)]
        return {(True, False, False): "empty", (False, True, True): "nonempty"}.get(tuple(got))

    # an early return is harmless when it is taken only without filters; it is WRONG when it is taken because there are filters; under any other condition (an empty track, a
    # feature switch) it is not decided here
    tparam = next((p_ for p_ in params_of(oa) if p_ not in ("self", "cls")), "track")

    def early_kind(n):
        """'harmless' / 'wrong' / 'open' for one early return: every alternative of its condition is looked at on its own"""
        fs = _pat.fact_nodes(n)
        alts = dnf(ast.BoolOp(op=ast.And(), values=list(fs)) if len(fs) != 1 else fs[0]) if fs else [[]]
        res = "harmless"
        for a in (alts if alts is not None else [[None]]):
            kinds = [filters_test_kind(f_) if f_ is not None else None for f_ in a]
            if "empty" in kinds or any(f_ is not None and emptiness_test(f_, f"{tparam}.challenges") == "empty" for f_ in a):
                continue  # taken without filters, or for a track without challenges: nothing is left unfiltered
            if "nonempty" in kinds:
                return "wrong"
            res = "open"
        return res

    wrong_early = [n for n in early if early_kind(n) == "wrong"]
    open_early = [n for n in early if early_kind(n) == "open"]
    for n in open_early:
        chk.unknown("O11.3", f"the hook returns early under `{' and '.join(u(f_) for f_ in _pat.fact_nodes(n))[:80]}`: whether filtering is skipped although there are filters is not decided", n)
    chk.ob("O11.3", "early return only without filters", not wrong_early, wrong_early[0] if wrong_early else (early[0] if early else oa),
           "" if not wrong_early else "the hook returns before filtering although there are filters")

    # the ONLY reason to remove an element is the match routine: the statements that queue an element for removal are written under exactly one explicit condition, the call of
    # the match routine on that very element (the emptied-parallel clean-up, keyed by the emptiness test, is decided by O11.2). A queue is an `<list>.append(<v>)` in a loop over
    # <v>, a comprehension `[<v> for <v> in ... if ...]` or filter(<match routine>, ...); it is a TOP-LEVEL queue if the schedule of a challenge is iterated, a LEAF queue if a
    # schedule element (a variable of a top-level loop, or its .tasks) is iterated.
    top_loops = [n for n in ast.walk(oaX) if isinstance(n, (ast.For, ast.comprehension)) and isinstance(n.target, ast.Name) and isinstance(strip_sel(n.iter), ast.Attribute) and strip_sel(n.iter).attr == "schedule"]
    top_vars = {n.target.id for n in top_loops}

    oaX_defs = value_defs(oaX)

    def level(it):
        e = strip_sel(it)
        if isinstance(e, ast.Attribute) and e.attr == "schedule":
            return "top"
        if isinstance(e, ast.Name) and e.id not in top_vars and e.id in oaX_defs:
            # the leaves taken into a local first (`leaf_tasks = list(task)`), inside the loop over the schedule whose variable it reads
            d_ = strip_sel(oaX_defs[e.id])
            own = d_.value if isinstance(d_, ast.Attribute) and d_.attr == "tasks" else d_
            if isinstance(own, ast.Name) and own.id in top_vars and any(isinstance(a, ast.For) and isinstance(a.target, ast.Name) and a.target.id == own.id for a in source.ancestors(oaX_defs[e.id])):
                e = d_
        if isinstance(e, ast.Attribute) and e.attr == "tasks":
            e = e.value
        return "leaf" if isinstance(e, ast.Name) and e.id in top_vars else None

    def admits_nonempty(f_, ev_):
        """the sizes n in (1, 2, 3) of a parallel element `ev_` for which the condition is FALSE (client count derived / explicit); None if it is not evaluable on them"""
        a2 = source.inline_node(f_, oaX_defs)
        if mentions_match(a2) or not any(isinstance(x, ast.Name) and x.id == ev_ for x in ast.walk(a2)):
            return None
        out = set()
        try:
            for c_ in (_NOHOOK, 3):
                for n_ in (1, 2, 3):
                    try:
                        p_ = parallel_with(n_, c_)
                    except _CannotRun:
                        if c_ is _NOHOOK:
                            raise
                        continue
                    t_ = truth_on(a2, {ev_: p_})
                    if t_ is None:
                        return None
                    if not t_:
                        out.add(n_)
        except _CannotRun:
            return None
        return sorted(out)

    def is_match_call(f_, lv):
        return isinstance(f_, ast.Call) and helper_of(f_) is fo and len(f_.args) == 1 and not f_.keywords and u(f_.args[0]) == lv

    queues = []  # (level, variable, site, conditions, the loop / comprehension node)
    for lp in [n for n in ast.walk(oaX) if isinstance(n, ast.For) and isinstance(n.target, ast.Name) and level(n.iter)]:
        lv = lp.target.id
        for c in [c for c in ast.walk(lp) if isinstance(c, ast.Call) and last_attr(c.func) in ("append", "remove_task", "remove") and len(c.args) == 1 and u(c.args[0]) == lv and source.enclosing(c, ast.For) is lp]:
            # `<list>.append(v)` queues v; `<owner>.remove_task(v)` in a loop over a COPY of the owner's list removes it at once (iterating the list itself is refused above)
            queues.append((level(lp.iter), lv, c, _pat.fact_nodes(c, stop=lp, path_sensitive=True), lp))
    for cp in [n for n in ast.walk(oaX) if isinstance(n, (ast.ListComp, ast.SetComp, ast.GeneratorExp)) and len(n.generators) == 1]:
        g = cp.generators[0]
        if isinstance(g.target, ast.Name) and level(g.iter) and isinstance(cp.elt, ast.Name) and cp.elt.id == g.target.id:
            fs = [a for t in g.ifs for a in conjuncts(t)]
            if any(cp is x for n, _ in fstores for x in ast.walk(n)):
                continue  # the value of a filtering store: read below, with the polarity of a KEEP condition
            if fs and all(isinstance(f_, ast.UnaryOp) and isinstance(f_.op, ast.Not) and is_match_call(f_.operand, g.target.id) for f_ in fs):
                continue  # the list of the elements that STAY: not a removal queue (what happens with it is not read here)
            if any(isinstance(x, ast.Call) and helper_of(x) is fo for f_ in fs for x in ast.walk(f_)):
                queues.append((level(g.iter), g.target.id, cp, fs, cp))
    for fc in [n for n in ast.walk(oaX) if isinstance(n, ast.Call) and dotted(n.func) == "filter" and len(n.args) == 2 and is_self_attr(n.args[0], fo.name) and level(n.args[1])]:
        queues.append((level(fc.args[1]), "<element>", fc, None, fc))
    def leaf_guard(node):
        """the leaves of EVERY kept parallel element are looked at: between the loop over the schedule and the leaf queue only `the element is kept` / `the element is parallel` may decide"""
        tl = next((a for a in source.ancestors(node) if isinstance(a, ast.For) and any(a is t_ for t_ in top_loops)), None)
        if tl is None:
            return
        ev_ = tl.target.id
        for f_ in _pat.fact_nodes(node, stop=tl, path_sensitive=True):
            neg = isinstance(f_, ast.UnaryOp) and isinstance(f_.op, ast.Not)
            core = f_.operand if neg else f_
            kind_ = None if mentions_match(f_) else elem_test_kind(f_, ev_, oaX_defs)
            if (neg and is_match_call(core, ev_)) or kind_ in ("parallel", "nonempty"):
                continue
            # any other condition on the element is decided on VALUES: it has to hold for every parallel element that still has sub-tasks (1, 2, 3 of them), since each of
            # them may be selected for removal by a filter that leaves the element as a whole in place
            shut = None if is_match_call(core, ev_) or kind_ == "leaf" else admits_nonempty(f_, ev_)
            if shut == []:
                continue
            if (not neg and is_match_call(core, ev_)) or kind_ == "leaf" or shut:
                chk.ob("O11.3", f"the leaves of every kept parallel element `{ev_}` are filtered", False, node,
                       f"the leaf queue is only reached under `{u(f_)}`" + (f" (false for a parallel element with {' / '.join(map(str, shut))} sub-task(s))" if shut else "") +
                       ": parallel elements that stay keep leaves the filters select for removal",
                       key=f"{_L}:TaskFilterTrackProcessor.on_after_load_track:leaf-queue-guard")
            else:
                chk.unknown("O11.3", f"the leaf queue of `{ev_}` is reached under the unrecognised condition `{short(f_, 50)}`", node)

    found, lists_seen = set(), set()
    for lvl, lv, site, fs, node in queues:
        if isinstance(site, ast.Call) and last_attr(site.func) == "append" and isinstance(site.func.value, ast.Name) and site.func.value.id not in lists_seen:
            # the list starts empty for every challenge (resp. every schedule element): what was queued for one is not removed from - or searched in - the next
            lname = site.func.value.id
            lists_seen.add(lname)
            encl = source.enclosing(node, (ast.For, ast.While))
            inits = [n for n in ast.walk(oaX) if isinstance(n, ast.Assign) and any(isinstance(t, ast.Name) and t.id == lname for t in n.targets)]
            if encl is not None and not inits:
                chk.unknown("O11.3", f"the removal list `{lname}` is not initialised in the hook (or the helpers expanded into it)", site)
            elif encl is not None:
                ok = all(any(a is encl for a in source.ancestors(n)) for n in inits)
                what = "challenge" if lvl == "top" else "schedule element"
                chk.ob("O11.3", f"the removal list `{lname}` starts empty for every {what}", ok, inits[0],
                       "" if ok else f"`{lname}` is created once, outside the loop over the {what}s: what was queued for one {what} is removed from (or missing in) the next one",
                       key=f"{_L}:TaskFilterTrackProcessor.on_after_load_track:fresh-list:{lvl}")
        if fs is not None:
            alts = dnf(ast.BoolOp(op=ast.And(), values=list(fs)) if len(fs) != 1 else fs[0]) if fs else [[]]
            if alts is None:
                chk.unknown("O11.3", f"the condition under which `{lv}` is queued for removal is too large to be split into alternatives", site)
                continue
            # each alternative of the condition is either the emptiness clean-up (decided by O11.2) or the match routine on that very element and nothing else
            oa_defs = value_defs(oaX)
            alts = [a for a in alts if not (any(elem_test_kind(f_, lv, oa_defs) == "empty" for f_ in a) and not any(is_match_call(f_, lv) for f_ in a))]
            if not alts:
                continue
            # an alternative that does not ask the match routine at all and tests the element itself in a spelling that is not read may be the emptiness clean-up: not recognised
            unread = [f_ for a in alts if not any(is_match_call(f_, lv) for f_ in a) for f_ in a
                      if not mentions_match(source.inline_node(f_, oa_defs)) and elem_test_kind(f_, lv, oa_defs) is None
                      and any(isinstance(x, ast.Name) and x.id == lv for x in ast.walk(source.inline_node(f_, oa_defs)))]
            if unread:
                chk.unknown("O11.3", f"`{lv}` is queued for removal under the condition `{short(unread[0], 60)}`, which is neither the match routine nor a recognised test for an emptied parallel element", site)
                continue
            hidden = [x for a in alts for f_ in a for x in ast.walk(f_) if isinstance(x, ast.Call) and helper_of(x) is not None and helper_of(x) is not fo]
            if hidden:
                chk.unknown("O11.3", f"`{lv}` is queued for removal under a condition computed by {short(hidden[0], 50)}, which could not be read together with its caller", site)
                continue
            ok = all(len(a) == 1 and is_match_call(a[0], lv) for a in alts)
            chk.ob("O11.3", f"`{lv}` is queued for removal iff the match routine says so (no further condition)", ok, site, f"written under {' or '.join(str([u(f_) for f_ in a]) for a in alts)}" +
                   ("" if ok else " — an element the filters select for removal stays in the schedule (or one they keep is removed)"), key=f"{_L}:TaskFilterTrackProcessor.on_after_load_track:queue:{lv}")
        found.add(lvl)
        if lvl == "leaf":
            leaf_guard(node)
    for n, fs_ in fstores:
        owner, cattr, var, keep = fs_
        if cattr == "tasks" and isinstance(owner, ast.Name) and owner.id in top_vars and any(n is x for x in ast.walk(oaX)):
            # `<element>.tasks = [t for t in <element>.tasks if <keep>]`: a leaf is removed iff not <keep>; every alternative of that must be the match routine on the leaf, nothing else
            alts = dnf(negate(ast.BoolOp(op=ast.And(), values=list(keep)) if len(keep) != 1 else keep[0])) if keep else []
            if alts is None:
                chk.unknown("O11.3", f"the condition under which `{var}` is kept is too large to be split into alternatives", n)
                continue
            ok = bool(alts) and all(len(a) == 1 and is_match_call(a[0], var) for a in alts)
            chk.ob("O11.3", f"`{var}` is queued for removal iff the match routine says so (no further condition)", ok, n, f"removed under {' or '.join(str([u(f_) for f_ in a]) for a in alts) or 'no condition'}" +
                   ("" if ok else " — an element the filters select for removal stays in the schedule (or one they keep is removed)"), key=f"{_L}:TaskFilterTrackProcessor.on_after_load_track:queue:{var}")
            found.add("leaf")
            leaf_guard(n)
    if found >= {"top", "leaf"}:
        chk.ob("O11.3", "removal queues located (top-level elements and leaves)", True, oa, f"{len(queues)} site(s)")
    else:
        chk.unknown("O11.3", f"removal queues not located for {sorted({'top', 'leaf'} - found)} (an `append` of the loop variable, a filtering comprehension or filter() over the schedule of a challenge "
                    "resp. over a schedule element)", oa)
    # the match decision is taken per OBJECT: tasks compare equal when name / operation / settings agree although their tags differ, so a memoised matches() (lru_cache, cache)
    # replays one task's decision for another
    for cname in ("Task", "Parallel", "TaskNameFilter", "TaskOpTypeFilter", "TaskTagFilter"):
        m_ = trk.methods(trk.cls(cname)).get("matches")
        if m_ is None:
            continue
        decs = [dotted(d_.func if isinstance(d_, ast.Call) else d_) or "" for d_ in m_.decorator_list]
        memo = [d_ for d_ in decs if d_.split(".")[-1] in ("lru_cache", "cache", "cached_property", "memoize")]
        chk.ob("O11.1", f"{cname}.matches is evaluated for every object (not memoised by value)", not memo, m_, "" if not memo else f"@{memo[0]}: the cache key uses __eq__/__hash__, which ignore tags",
               key=f"esrally/track/track.py:{cname}.matches:not-memoised")

    # ---- the hook INTERPRETED end to end on model schedules (O11.3) ---------------------------------------------------------------------------------------------
    # one challenge with the schedule [leaf, parallel(1), leaf, parallel(2), parallel(3)] built from representative elements, two probe filters, and for each mode a family of
    # selections (nothing, everything, every single leaf, everything but one leaf, pairs inside the larger parallel elements): after the hook the schedule must consist of exactly
    # the leaves the property keeps - the SAME objects, in their order, every parallel element holding its kept sub-tasks and dropped when none is kept -, and no other field of
    # any element may have changed. The match decisions are the fixed answers of the probes (a parallel element matches iff one of its current sub-tasks does: O11.1 decides
    # Parallel.matches itself); loops run over the live lists. Where the hook is not interpretable the rules above stand alone (advisory, no verdict).
    SHAPES = ((None, 1, None, 2, 3), (-2, None))  # per challenge: None = a leaf, n = a parallel element with n sub-tasks, -n = the same with an explicit client count
    NLEAF = sum(abs(n_ or 1) for sh in SHAPES for n_ in sh)

    def sim_methods(e_, nm):
        if e_.kind == "challenge":
            c_ = trk.cls("Challenge")
            return trk, c_, trk.methods(c_).get(nm)
        return elem_methods(e_, nm)

    def clone(e_, **over):
        n_ = _Elem(e_.kind, e_.attrs, e_.iter_field)
        n_.fields = dict(e_.fields, **over)
        return n_

    def subs_of(e_):
        return e_.fields.get(e_.iter_field or "tasks")

    def own_fields(e_):
        return {a_: v_ for a_, v_ in e_.fields.items() if not (e_.kind == "parallel" and a_ == (e_.iter_field or "tasks"))}

    def simulate(protos, exclude, selected):
        """(expected, actual, changed fields) for one mode and one set of selected leaf indices; per challenge a schedule as [(element, sub-tasks or None)]"""
        leaf_p, par_p, ch_attrs = protos
        leaves = [clone(leaf_p, idx=i) for i in range(NLEAF)]
        challenges, groups, elems, k = [], [], [], 0
        for ci, sh in enumerate(SHAPES):
            sched, grp = [], []
            for n_ in sh:
                if n_ is None:
                    sched.append(leaves[k])
                    grp.append((leaves[k], None))
                    k += 1
                else:
                    el = clone(par_p[n_], **{par_p[n_].iter_field or "tasks": leaves[k:k + abs(n_)]})
                    sched.append(el)
                    grp.append((el, leaves[k:k + abs(n_)]))
                    k += abs(n_)
            elems += sched
            groups.append(grp)
            challenges.append(_Elem("challenge", ch_attrs, None, name=f"model-{ci}", schedule=sched))
        before = {id(e_): own_fields(e_) for e_ in leaves + elems}
        model = minieval.Record(challenges=challenges, name="model")
        probes = [_Elem("filter", idx=i) for i in range(2)]

        def answer(e_, f_):
            if e_.kind == "parallel":
                return any(answer(l_, f_) for l_ in subs_of(e_))
            return e_.fields["idx"] in selected and f_.fields["idx"] == e_.fields["idx"] % 2

        it = _ElemInterp(repo, element_special(answer, sim_methods), sim_methods, fuel=100000, live=True)
        me = minieval.Record(**it.class_consts(ldr, P))
        st = states.get((not exclude, exclude))
        if run_err is None and st is not None and st[0] != "raise" and mattr in st[2]:
            me.fields.update({k_: v_ for k_, v_ in st[2].items() if not isinstance(v_, (list, dict, set))})
            me.fields[mattr] = st[2][mattr]
        elif mode_truth is not None:
            me.fields[mattr] = mode_truth[exclude]
        else:
            raise _CannotRun(f"the meaning of self.{mattr} could not be derived from the constructor")
        me.fields[fattr] = tuple(probes) if st is not None and isinstance(st[2].get(fattr), tuple) else probes
        it.invoke(oa, None, it.frame(ldr, P, me), True, argv={tparam: model})
        keep = lambda l_: (l_.fields["idx"] in selected) != exclude  # noqa: E731
        expected = [[(e_, None if subs is None else [l_ for l_ in subs if keep(l_)]) for e_, subs in grp if (keep(e_) if subs is None else any(keep(l_) for l_ in subs))] for grp in groups]
        actual = []
        for ch in challenges:
            now = ch.fields.get("schedule")
            if not isinstance(now, list) or not all(isinstance(e_, _Elem) and e_.kind in ("leaf", "parallel") for e_ in now) or not all(isinstance(subs_of(e_), list) for e_ in now if e_.kind == "parallel"):
                raise _CannotRun("the schedule / the sub-tasks are not lists of the model elements afterwards")
            actual.append([(e_, list(subs_of(e_)) if e_.kind == "parallel" else None) for e_ in now])
        changed = [(e_, a_) for e_ in leaves + elems for now_ in [own_fields(e_)] for a_ in sorted(set(before[id(e_)]) | set(now_))
                   if a_ not in before[id(e_)] or a_ not in now_ or (before[id(e_)][a_] is not now_[a_] and before[id(e_)][a_] != now_[a_])]
        return expected, actual, changed

    def show_sched(scs):
        return " | ".join("[" + ", ".join(f"t{e_.fields['idx']}" if subs is None else "(" + " ".join(f"t{l_.fields['idx']}" for l_ in subs) + ")" for e_, subs in sc) + "]" for sc in scs)

    def same_sched(a, b):
        return len(a) == len(b) and all(x[0] is y[0] and (x[1] is None) == (y[1] is None) and (x[1] is None or (len(x[1]) == len(y[1]) and all(p_ is q_ for p_, q_ in zip(x[1], y[1]))))
                                        for x, y in zip(a, b))

    EVERY = set(range(NLEAF))
    SELECTIONS = [set(), EVERY] + [{i} for i in range(NLEAF)] + [EVERY - {i} for i in range(NLEAF)] + [{3, 4}, {5, 6}, {6, 7}, {5, 7}, {1, 3, 5}, {0, 2}, {1, 4, 6}, {8, 9}, {1, 8}]
    try:
        par_p = {n_: parallel_with(n_) for n_ in (1, 2, 3)}
        try:
            par_p[-2] = parallel_with(2, 3)
        except _CannotRun:
            par_p[-2] = par_p[2]  # the constructor takes no explicit client count
        protos = (representative("leaf"), par_p, element_model(trk, "Challenge")[0])
        wrong_s = None
        for exclude in (False, True):
            for sel in SELECTIONS:
                exp_, act_, chg_ = simulate(protos, exclude, sel)
                what = (f"{'--exclude-tasks' if exclude else '--include-tasks'} selecting {{{', '.join(f't{i}' for i in sorted(sel))}}} in the challenges "
                        "[t0, (t1), t2, (t3 t4), (t5 t6 t7)] | [(t8 t9), t10]")
                if not (len(exp_) == len(act_) and all(same_sched(x, y) for x, y in zip(exp_, act_))):
                    wrong_s = wrong_s or f"{what}: the hook leaves {show_sched(act_)}, the property demands {show_sched(exp_)}"
                elif chg_:
                    wrong_s = wrong_s or f"{what}: field `{chg_[0][1]}` of {chg_[0][0]!r} is changed by the hook"
            if wrong_s:
                break
        chk.ob("O11.3", "the hook, interpreted on model schedules (two challenges; leaves, parallel elements with 1 / 2 / 3 sub-tasks, one with an explicit client count) for both modes and a "
               "family of selections, leaves exactly the selected tasks: same objects, same order, no emptied parallel element, no field changed", wrong_s is None, oa,
               wrong_s or f"{2 * len(SELECTIONS)} runs", key=f"{_L}:TaskFilterTrackProcessor.on_after_load_track:model-schedule")
    except _Raised as e:
        chk.adv("O11.3", f"the hook raises {e.text} on the model schedule: not decided by interpretation (the structural rules stand alone)", oa)
    except (_CannotRun, minieval.CannotEval) as e:
        chk.adv("O11.3", f"the hook is not interpretable on the model schedule ({e}): the structural rules stand alone", oa)

    # ---- O11.4 consumer agreement ----------------------------------------------------------------------------------------------------------------------------
    chk.rule("O11.4", "the driver can execute and report every remaining step: one progress entry per join point (C02/O2.1) and at least one client row even for an emptied schedule", 2,
             "filters leaving an empty schedule / empty element crash the driver at start or in progress reporting")
    from rules.C02 import step_entry_agreement

    step_entry_agreement(chk, drv, "O11.4")
    from rules.C02 import client_floor_rule

    client_floor_rule(chk, "O11.4", drv)
    progress_reports_every_step(chk, repo, drv, "O11.4")

    # ---- O11.5 removing the completing leaf is handled ---------------------------------------------------------------------------------------------------------
    chk.rule("O11.5", "the code that removes a leaf from a parallel element (the function holding the shrink site and everything it calls on the processor, the element or the leaf) "
             "consults the leaf's completing role - the Task attribute the track reader derives from `completed-by` and the allocator turns into the join point's completing clients - "
             "so that removing the completing leaf can be refused, transferred or extended to the siblings that only end with their parent", 1,
             "a filter that removes the task named by completed-by but keeps a sibling without an end of its own (warmup-time-period only, infinite parameter source): nothing ever "
             "completes the element, the filtered race hangs at that step and reports nothing")
    role = completing_role(repo, ldr, tinit)
    # the allocator really keys the completion of the element on this attribute (otherwise the role found above is not the one that ends the element)
    if not any(isinstance(n, ast.Attribute) and n.attr == role and isinstance(n.ctx, ast.Load) for n in ast.walk(drv.tree)):
        raise AnchorMissing(f"driver never reads the completing role `{role}` of a task")
    # candidate callees by (unique-enough) name: methods of the processor, of the parallel element and of the leaf class, and the loader's module-level functions
    cands = {}
    for mod_, cls_ in ((ldr, P), (trk, PA), (trk, TK)):
        for nm, m_ in mod_.methods(cls_).items():
            if not (nm.startswith("__") and nm.endswith("__")):
                cands.setdefault(nm, []).append(m_)
    for n in ldr.tree.body:
        if isinstance(n, source.FUNC_TYPES):
            cands.setdefault(n.name, []).append(n)

    def closure(root):
        seen, todo = [], [root]
        while todo:
            f_ = todo.pop()
            if any(f_ is s_ for s_ in seen):
                continue
            seen.append(f_)
            for x in ast.walk(f_):
                if isinstance(x, ast.Call) and last_attr(x.func) in cands:
                    todo.extend(cands[last_attr(x.func)])
        return seen

    def role_refs(f_):
        out = []
        for x in ast.walk(f_):
            named = (isinstance(x, ast.Attribute) and x.attr == role) or (
                isinstance(x, ast.Call) and dotted(x.func) in ("getattr", "hasattr", "setattr") and len(x.args) >= 2 and source.is_const(x.args[1], role))
            if named and x is not f_ and not is_logging_stmt(source.enclosing_stmt(x)):
                out.append(x)
        return out

    hook_slice = closure(oa)
    for c, recv_ in shrink:
        fn = source.enclosing_func(c)
        sl = closure(fn)
        refs = [r_ for f_ in sl for r_ in role_refs(f_)]
        root = oa if any(fn is f_ for f_ in hook_slice) else fn  # the finding is keyed by the processor hook that performs the removal, wherever a helper puts the call itself
        chk.ob("O11.5", f"{source.qualname(c)}: removing a leaf of {u(recv_)} consults the leaf's completing role `{role}`", bool(refs), refs[0] if refs else c,
               (f"{len(refs)} reference(s), first in {source.qualname(refs[0])}" if refs else
                f"no reference to `{role}` in {', '.join(sorted(source.qualname(f_) for f_ in sl))}: the leaf named by completed-by is removed like any other leaf and nothing else happens - "
                "the join point of the element gets no completing client, remaining siblings that only end with their parent never end"),
               key=f"{_L}:{source.qualname(root)}:completing-leaf-removed")


_OPAQUE = object()


class _SinkInterp(_Interp):
    """_Interp that RECORDS the expression-statement calls made on sink objects (console / progress reporters): (method name, evaluated positional arguments), in order"""

    def __init__(self, repo, sinks):
        super().__init__(repo)
        self.sinks, self.calls, self.lost = sinks, [], False

    def call(self, e, env):
        try:
            return super().call(e, env)
        except _CannotRun as x:  # a followed helper that is not interpretable: its value is opaque (and whatever it would have reported is not seen: `lost`)
            self.lost = True
            raise minieval.CannotEval(str(x))

    def stmt(self, s, env):
        if isinstance(s, ast.Expr) and isinstance(s.value, ast.Call) and isinstance(s.value.func, ast.Attribute) and self.resolve(s.value, env) is None and not is_logging_stmt(s):
            try:
                recv = self.val(s.value.func.value, env)
            except minieval.CannotEval:
                recv = None
            if any(recv is k_ for k_ in self.sinks):
                args = []
                for a in list(s.value.args) + [k_.value for k_ in s.value.keywords]:
                    try:
                        args.append(self.val(a, env))
                    except minieval.CannotEval:
                        args.append(_OPAQUE)  # built from something that is not modelled (a number formatted through round / sum ...): no statement about this argument
                self.calls.append((s.value.func.attr, args))
                return None
        return super().stmt(s, env)

    def val(self, e, env):
        if isinstance(e, ast.BinOp) and isinstance(e.op, ast.Mod):
            left = self.val(e.left, env)
            if isinstance(left, str):  # printf-style formatting of a message, applied to the VALUES
                right = self.val(e.right, env)
                if isinstance(right, (str, int, float, tuple)) and all(isinstance(x, (str, int, float)) for x in (right if isinstance(right, tuple) else (right,))):
                    try:
                        return left % right
                    except (TypeError, ValueError) as x:
                        raise _Raised(f"{type(x).__name__} in {short(e, 50)}")
                raise minieval.CannotEval(f"{short(e, 50)}: operand of the format not a plain value")
        return super().val(e, env)


def progress_reports_every_step(chk, repo, drv, rid):
    """the driver REPORTS every remaining step: the progress routine (the Driver method that indexes the allocator's per-step entries by the step counter) is INTERPRETED on a
    model run of three steps with the counter at each step index a step executes under (0 .. n-1: the counter starts at -1, the artificial initial join point, and is advanced
    by one per join point), for both values of every boolean parameter and every setting of the attributes the constructor takes from the configuration (quiet ...). Under every
    setting that reports any step at all, EVERY step index yields a message naming the tasks of exactly THAT step; with the counter at its initial value no step's tasks are named."""
    DR = drv.cls("Driver")
    dm = drv.methods(DR)
    dinit = dm.get("__init__")
    stores = [t.attr for m_ in dm.values() for n in walk_body(m_) if isinstance(n, ast.Assign) and isinstance(n.value, ast.Attribute) and n.value.attr == "tasks_per_joinpoint"
              for t in n.targets if is_self_attr(t)]
    counters = {n.target.attr for m_ in dm.values() for n in walk_body(m_) if isinstance(n, ast.AugAssign) and isinstance(n.op, ast.Add) and is_self_attr(n.target) and source.is_const(n.value, 1)}
    counters &= {t.attr for m_ in dm.values() for n in walk_body(m_) if isinstance(n, ast.Assign) and u(n.value) == "-1" for t in n.targets if is_self_attr(t)}
    if dinit is None or not stores or len(counters) != 1:
        chk.unknown(rid, "progress report per step: the per-step entries stored from `<allocator>.tasks_per_joinpoint` / the step counter (initialised to -1, advanced by `+= 1`) are not recognised", DR)
        return
    attr, counter = stores[0], next(iter(counters))
    routines = [m_ for m_ in dm.values() if any(isinstance(n, ast.Subscript) and is_self_attr(n.value, attr) and not isinstance(n.slice, ast.Slice) for n in walk_body(m_))]
    if not routines:
        chk.unknown(rid, f"progress report per step: no method of Driver indexes the per-step entries `self.{attr}`", DR)
        return
    R_ = minieval.Record
    NAMES = [["s0-create"], ["s1-bulk", "s1-query"], ["s2-merge"]]
    # what the constructor leaves on the driver: literal initial values are taken over; attributes taken from the configuration / collaborators stay open
    init_vals = {}
    for n in walk_body(dinit):
        if isinstance(n, ast.Assign) and len(n.targets) == 1 and is_self_attr(n.targets[0]):
            try:
                init_vals[n.targets[0].attr] = minieval.ev(n.value, {})
            except (minieval.CannotEval, TypeError, ValueError, KeyError, IndexError, AttributeError):
                init_vals.pop(n.targets[0].attr, None)
    for rt in routines:
        reads = {n.attr for n in walk_body(rt) if isinstance(n, ast.Attribute) and is_self_attr(n) and isinstance(n.ctx, ast.Load)}
        sink_attrs = {s_.value.func.value.attr for s_ in walk_body(rt) if isinstance(s_, ast.Expr) and isinstance(s_.value, ast.Call) and isinstance(s_.value.func, ast.Attribute)
                      and is_self_attr(s_.value.func.value) and not is_logging_stmt(s_)} - {attr, counter}
        sink_attrs = {a_ for a_ in sink_attrs if not isinstance(init_vals.get(a_), (list, dict, set))}
        open_attrs = sorted(a_ for a_ in reads - sink_attrs - {attr, counter} - set(dm) if a_ not in init_vals)
        flags = [p_ for p_ in params_of(rt)[1:]]
        inst = f"{source.qualname(rt)}: every step index of a run is reported with the tasks of that step"
        if not sink_attrs or len(open_attrs) + len(flags) > 4:
            chk.unknown(rid, f"progress report per step: {source.qualname(rt)} has no reporter call on an attribute of the driver / too many open inputs ({open_attrs + flags})", rt)
            continue

        def named(k, setting, rt=rt, sink_attrs=sink_attrs, open_attrs=open_attrs, flags=flags, reads=reads):
            """indices of the steps whose tasks a message names when the routine runs with the counter at k"""
            sink = R_()
            me = R_(**{a_: (json.loads(json.dumps(v_)) if isinstance(v_, (list, dict)) else v_) for a_, v_ in init_vals.items() if a_ in reads})
            me.fields.update({a_: sink for a_ in sink_attrs})
            me.fields.update(dict(zip(open_attrs, setting)))
            me.fields[attr] = [[R_(name=x_) for x_ in row] for row in NAMES]
            me.fields[counter] = k
            it = _SinkInterp(repo, [sink])
            it.invoke(rt, None, it.frame(drv, DR, me), True, argv=dict(zip(flags, setting[len(open_attrs):])))
            texts = [a_ for _, args in it.calls for a_ in args if isinstance(a_, str)]
            got_ = {i for i, row in enumerate(NAMES) if any(all(x_ in t_ for x_ in row) for t_ in texts)}
            if not got_ and (it.lost or any(a_ is _OPAQUE for _, args in it.calls for a_ in args)):
                raise _CannotRun(f"the reporter is called with arguments that are not evaluable (counter at {k})")
            return got_

        try:
            bad, some = None, False
            for setting in itertools.product((False, True), repeat=len(open_attrs) + len(flags)):
                got = {k: named(k, setting) for k in (-1, 0, 1, 2)}
                if not any(got[k] for k in (0, 1, 2)):
                    continue  # a silent setting (quiet): nothing is reported for any step
                some = True
                desc = ", ".join(f"{a_}={v_}" for a_, v_ in zip(open_attrs + flags, setting))
                for k in (0, 1, 2):
                    if got[k] != {k} and bad is None:
                        bad = (f"with {desc} and `self.{counter}` == {k} (step {k + 1} of 3 executing) " +
                               ("no message names the tasks of that step" if not got[k] else f"the message names the tasks of step(s) {sorted(i + 1 for i in got[k])}") +
                               f" while steps {sorted(j + 1 for j in (0, 1, 2) if got[j] == {j})} are reported: the driver executes the step without reporting it")
                if got[-1] and bad is None:
                    bad = f"with {desc} and `self.{counter}` == -1 (before the first step) the message names the tasks of step(s) {sorted(i + 1 for i in got[-1])}"
            if not some:
                chk.unknown(rid, f"progress report per step: {source.qualname(rt)} reports no step under any setting of {open_attrs + flags} on the model run", rt)
                continue
            chk.ob(rid, inst, bad is None, rt, bad or "", key=f"{_D}:{source.qualname(rt)}:every-step-reported")
        except _Raised as e:
            chk.ob(rid, inst, False, rt, f"raises {e.text} on a model run of three steps", key=f"{_D}:{source.qualname(rt)}:every-step-reported")
        except (_CannotRun, minieval.CannotEval) as e:
            chk.unknown(rid, f"progress report per step: {source.qualname(rt)} is not interpretable on a model run of three steps: {e}", rt)


def completing_role(repo, ldr, tinit):
    """Name of the Task attribute that marks THE task completing its parallel element, derived by data flow: a construction of Task in the loader passes, for some constructor
    parameter K, a comparison `<name of the task> == <p>` where <p> is a parameter of the constructing function that one of its callers feeds from the value read under the
    track key "completed-by"; Task.__init__ stores K in `self.<attr>`."""
    for call in [c for c in ast.walk(ldr.tree) if isinstance(c, ast.Call) and last_attr(c.func) == "Task"]:
        fn = source.enclosing_func(call)
        if fn is None:
            continue
        fparams = set(params_of(fn)) | {a.arg for a in fn.args.kwonlyargs}
        defs = local_defs(fn)
        callers = [c for c in package_calls(repo, fn.name) if c is not call]
        def fed_by_callers(pname):
            for cc in callers:
                cf = source.enclosing_func(cc)
                arg = source.bind_args(cc, fn).get(pname)
                if arg is not None and cf is not None and any(source.is_const(x, "completed-by") for x in ast.walk(source.inline_node(arg, local_defs(cf)))):
                    return True
            return False

        def carries(side_):
            """the expression is the value read under "completed-by": a parameter fed with it by a caller, or (locals inlined) the read itself"""
            if isinstance(side_, ast.Name) and side_.id in fparams:
                return fed_by_callers(side_.id)
            return any(source.is_const(x, "completed-by") for x in ast.walk(side_))

        for k_, val in source.bind_args(call, tinit).items():
            v = source.inline_node(val, defs)
            found = False
            # somewhere in the value: `<task name> == <completed-by>` (either orientation); `<completed-by> == "any"` is another role, and a membership test against several names
            # does not single out THE completing task (the role is then not derivable: inconclusive)
            for cmp_ in [x for x in ast.walk(v) if isinstance(x, ast.Compare) and len(x.ops) == 1 and isinstance(x.ops[0], ast.Eq)]:
                sides = [cmp_.left, cmp_.comparators[0]]
                found = found or any(carries(a_) and not isinstance(b_, ast.Constant) and not carries(b_) for a_, b_ in (sides, sides[::-1]))
            if not found:
                continue
            for n in walk_body(tinit):
                if isinstance(n, ast.Assign) and len(n.targets) == 1 and is_self_attr(n.targets[0]) and any(isinstance(x, ast.Name) and x.id == k_ for x in ast.walk(n.value)):
                    return n.targets[0].attr
    raise AnchorMissing("the Task attribute set from `<task name> == <completed-by>` (completing role) could not be derived from the track reader / Task.__init__")


from sa.selftest import V  # noqa: E402

VARIANTS = [
    V("F4: emptied parallel stays", "break", _L, "                    # a parallel element without any remaining sub-task cannot be run\n                    if isinstance(task, Parallel) and len(task.tasks) == 0:\n                        tasks_to_remove.append(task)\n", "", "O11.2"),
    V("match arm returns not exclude", "break", _L, "                return self.exclude\n        return not self.exclude", "                return not self.exclude\n        return not self.exclude", "O11.1"),
    V("parallel exclude special case dropped", "break", _L, "                if hasattr(task, \"tasks\") and self.exclude:\n                    return False\n", "", "O11.1"),
    V("type: mapped to the name filter", "break", _L, "filters.append(track.TaskOpTypeFilter(spec[1]))", "filters.append(track.TaskNameFilter(spec[1]))", "O11.1"),
    V("mutate while iterating", "break", _L, "                    for leaf_task in task:\n                        if self._filter_out_match(leaf_task):\n                            leafs_to_remove.append(leaf_task)", "                    for leaf_task in task:\n                        if self._filter_out_match(leaf_task):\n                            task.remove_task(leaf_task)", "O11."),
    V("filter sets task.clients", "break", _L, "            for task in tasks_to_remove:\n                self.logger.info(\"Removing task [%s] from challenge [%s] due to task filter.\", task, challenge)", "            for task in tasks_to_remove:\n                task.clients = 0\n                self.logger.info(\"Removing task [%s] from challenge [%s] due to task filter.\", task, challenge)", "O11.3"),
    V("seed m2: tags not normalised", "break", _T, "        if isinstance(tags, str):\n            self.tags = [tags]\n        elif tags:\n            self.tags = tags\n        else:\n            self.tags = []", "        self.tags = tags if tags else []", "O11.1"),
    V("seed m3: client floor lost", "break", _D, "        max_clients = 1\n        for task in self.schedule:\n            max_clients = max(max_clients, task.clients)\n        return max_clients", "        return max((task.clients for task in self.schedule), default=0)", "O11.4"),
    V("tag filter substring on name", "break", _T, "        return self.tag_name in task.tags", "        return self.tag_name in task.name", "O11.1"),
    V("parallel matches all", "break", _T, "        for task in self.tasks:\n            if task.matches(task_filter):\n                return True\n        return False", "        for task in self.tasks:\n            if not task.matches(task_filter):\n                return False\n        return True", "O11.1"),
    V("only first challenge filtered", "break", _L, "        for challenge in track.challenges:\n            # don't modify the schedule while iterating over it\n            tasks_to_remove = []\n            for task in challenge.schedule:\n                if self._filter_out_match(task):", "        for challenge in track.challenges[:1]:\n            # don't modify the schedule while iterating over it\n            tasks_to_remove = []\n            for task in challenge.schedule:\n                if self._filter_out_match(task):", "O11.3"),
    # preserving
    V("isinstance instead of hasattr", "keep", _L, "                if hasattr(task, \"tasks\") and self.exclude:", "                if isinstance(task, Parallel) and self.exclude:"),
    V("emptiness via not task.tasks", "keep", _L, "                    if isinstance(task, Parallel) and len(task.tasks) == 0:", "                    if isinstance(task, Parallel) and not task.tasks:"),
    V("emptiness test in the else arm, flipped comparison", "keep", _L, "                    if isinstance(task, Parallel) and len(task.tasks) == 0:\n                        tasks_to_remove.append(task)\n", "                    if not isinstance(task, Parallel) or 0 < len(task.tasks):\n                        pass\n                    else:\n                        tasks_to_remove.append(task)\n"),
    V("else arm keeps the emptied element", "break", _L, "                    if isinstance(task, Parallel) and len(task.tasks) == 0:\n                        tasks_to_remove.append(task)\n", "                    if not isinstance(task, Parallel) or len(task.tasks) == 0:\n                        pass\n                    else:\n                        tasks_to_remove.append(task)\n", "O11.2"),
    V("parallel matches via any()", "keep", _T, "        for task in self.tasks:\n            if task.matches(task_filter):\n                return True\n        return False", "        return any(task.matches(task_filter) for task in self.tasks)"),
    V("parallel matches via all()", "break", _T, "        for task in self.tasks:\n            if task.matches(task_filter):\n                return True\n        return False", "        return all(task.matches(task_filter) for task in self.tasks)", "O11.1"),
    V("parallel matches via flag and break", "keep", _T, "        for task in self.tasks:\n            if task.matches(task_filter):\n                return True\n        return False", "        found = False\n        for task in self.tasks:\n            if task.matches(task_filter):\n                found = True\n                break\n        return found"),
    V("parallel matches: first leaf only", "break", _T, "        for task in self.tasks:\n            if task.matches(task_filter):\n                return True\n        return False", "        for task in self.tasks:\n            return task.matches(task_filter)\n        return False", "O11.1"),
    V("tags normalised in one conditional expression", "keep", _T, "        if isinstance(tags, str):\n            self.tags = [tags]\n        elif tags:\n            self.tags = tags\n        else:\n            self.tags = []", "        self.tags = [tags] if isinstance(tags, str) else (tags if tags else [])"),
    V("string tags no longer wrapped (wrong type tested)", "break", _T, "        if isinstance(tags, str):\n            self.tags = [tags]\n        elif tags:", "        if isinstance(tags, list):\n            self.tags = [tags]\n        elif tags:", "O11.1"),
    V("name filter comparison flipped", "keep", _T, "        return self.name == task.name", "        return task.name == self.name"),
    V("match loop as any()", "keep", _L, "        for f in self.filters:\n            if task.matches(f):\n                if hasattr(task, \"tasks\") and self.exclude:\n                    return False\n                return self.exclude\n        return not self.exclude", "        if any(task.matches(f) for f in self.filters):\n            if self.exclude and hasattr(task, \"tasks\"):\n                return False\n            return self.exclude\n        return not self.exclude"),
    V("seed C02-m7: max with default 1 (the default only covers the EMPTY schedule, not a schedule of empty elements)", "break", _D, "        max_clients = 1\n        for task in self.schedule:\n            max_clients = max(max_clients, task.clients)\n        return max_clients", "        return max((task.clients for task in self.schedule), default=1)", "O11.4"),
    V("explicit floor around the max", "keep", _D, "        max_clients = 1\n        for task in self.schedule:\n            max_clients = max(max_clients, task.clients)\n        return max_clients", "        return max(1, max((task.clients for task in self.schedule), default=0))"),
    # O11.5 (F53 is a KNOWN finding at TaskFilterTrackProcessor.on_after_load_track: the battery is run with that entry listed). Any OTHER site that removes leaves without consulting
    # the completing role is still reported; respellings of the reader / of Task.__init__ keep the derived role (and with it the verdict and its key).
    V("a second processor removes leaves of a parallel element without consulting the completing role", "break", _L,
      "                if isinstance(task, Parallel):\n                    challenge.serverless_info.append(f\"Treating parallel task in challenge [{challenge}] as public.\")\n",
      "                if isinstance(task, Parallel):\n                    for leaf in [l for l in task if self._is_filtered_task(l.operation)]:\n                        task.remove_task(leaf)\n", "O11.5"),
    [V("completing role computed into a local first, comparison flipped", "keep", _L, "            completes_parent=(task_name == completed_by_name),\n", "            completes_parent=is_completing,\n"),
     V("(second edit of the same variant: the local)", "keep", _L, "        task = track.Task(\n            name=task_name,", "        is_completing = completed_by_name == task_name\n        task = track.Task(\n            name=task_name,")],
    V("Task stores the completing role through bool()", "keep", _T, "        self.completes_parent = completes_parent\n", "        self.completes_parent = bool(completes_parent)\n"),
]

# ---- hardening round 2: refactored shapes (extracted helpers, table dispatch, comprehensions, renamed attributes) - each accepted shape with a defect placed INSIDE that shape ----------
_OA = """        for challenge in track.challenges:
            # don't modify the schedule while iterating over it
            tasks_to_remove = []
            for task in challenge.schedule:
                if self._filter_out_match(task):
                    tasks_to_remove.append(task)
                else:
                    leafs_to_remove = []
                    for leaf_task in task:
                        if self._filter_out_match(leaf_task):
                            leafs_to_remove.append(leaf_task)
                    for leaf_task in leafs_to_remove:
                        self.logger.info("Removing sub-task [%s] from challenge [%s] due to task filter.", leaf_task, challenge)
                        task.remove_task(leaf_task)
                    # a parallel element without any remaining sub-task cannot be run
                    if isinstance(task, Parallel) and len(task.tasks) == 0:
                        tasks_to_remove.append(task)
            for task in tasks_to_remove:
                self.logger.info("Removing task [%s] from challenge [%s] due to task filter.", task, challenge)
                challenge.remove_task(task)

        return track
"""
_FO = """        for f in self.filters:
            if task.matches(f):
                if hasattr(task, "tasks") and self.exclude:
                    return False
                return self.exclude
        return not self.exclude
"""
_INIT = """        if include_tasks:
            filtered_tasks = include_tasks
            self.exclude = False
        else:
            filtered_tasks = exclude_tasks
            self.exclude = True
        self.filters = self._filters_from_filtered_tasks(filtered_tasks)
"""
_FF = """        filters = []
        if filtered_tasks:
            for t in filtered_tasks:
                spec = t.split(":")
                if len(spec) == 1:
                    filters.append(track.TaskNameFilter(spec[0]))
                elif len(spec) == 2:
                    if spec[0] == "type":
                        # TODO remove the below ignore when introducing type hints
                        filters.append(track.TaskOpTypeFilter(spec[1]))  # type: ignore[arg-type]
                    elif spec[0] == "tag":
                        # TODO remove the below ignore when introducing type hints
                        filters.append(track.TaskTagFilter(spec[1]))  # type: ignore[arg-type]
                    else:
                        raise exceptions.SystemSetupError(f"Invalid format for filtered tasks: [{t}]. Expected [type] but got [{spec[0]}].")
                else:
                    raise exceptions.SystemSetupError(f"Invalid format for filtered tasks: [{t}]")
        return filters
"""
_NF = """class TaskNameFilter:
    def __init__(self, name):
        self.name = name

    def matches(self, task):
        return self.name == task.name
"""
_TF = """class TaskTagFilter:
    def __init__(self, tag_name):
        self.tag_name = tag_name

    def matches(self, task):
        return self.tag_name in task.tags
"""


def _helpers_shape(empty_expr, use):
    """the hook split into _filter_challenge / _remove_filtered_leafs (shape of benign/C11-b1); empty_expr: what the leaf helper returns; use: how the caller uses it"""
    return f"""        for challenge in track.challenges:
            self._filter_challenge(challenge)

        return track

    def _remove_filtered_leafs(self, challenge, task):
        leafs_to_remove = []
        for leaf_task in task:
            if self._filter_out_match(leaf_task):
                leafs_to_remove.append(leaf_task)
        for leaf_task in leafs_to_remove:
            self.logger.info("Removing sub-task [%s] from challenge [%s] due to task filter.", leaf_task, challenge)
            task.remove_task(leaf_task)
        return {empty_expr}

    def _filter_challenge(self, challenge):
        tasks_to_remove = []
        for task in challenge.schedule:
            if self._filter_out_match(task):
                tasks_to_remove.append(task)
{use}
        for task in tasks_to_remove:
            challenge.remove_task(task)
"""


_USE_ELIF = "            elif self._remove_filtered_leafs(challenge, task):\n                tasks_to_remove.append(task)"
_B3 = """        for challenge in track.challenges:
            tasks_to_remove = []
            for task in challenge.schedule:
                if self._filter_out_match(task):
                    tasks_to_remove.append(task)
                elif {guard}:
                    leafs_to_remove = [leaf_task for leaf_task in task if self._filter_out_match(leaf_task){extra}]
                    for leaf_task in leafs_to_remove:
                        task.remove_task(leaf_task)
                    if len(task.tasks) == 0:
                        tasks_to_remove.append(task)
            for task in tasks_to_remove:
                challenge.remove_task(task)

        return track
"""
_TABLE_FF = """        filters = []
        for t in filtered_tasks or []:
            spec = t.split(TASK_FILTER_SEPARATOR)
            if len(spec) > 2:
                raise exceptions.SystemSetupError(f"Invalid format for filtered tasks: [{t}]")
            if len(spec) == 1:
                filters.append(track.TaskNameFilter(spec[0]))
                continue
            prefix, value = spec
            filter_class = TASK_FILTERS_BY_PREFIX.get(prefix)
            if filter_class is None:
                raise exceptions.SystemSetupError(f"Invalid format for filtered tasks: [{t}]. Expected [type] but got [{prefix}].")
            filters.append(filter_class(value))
        return filters
"""
_CLS = "class TaskFilterTrackProcessor(TrackProcessor):\n"


def _table(type_cls):
    return f'TASK_FILTER_SEPARATOR = ":"\nTASK_FILTERS_BY_PREFIX = {{\n    "type": track.{type_cls},\n    "tag": track.TaskTagFilter,\n}}\n\n\n' + _CLS


VARIANTS += [
    # extracted helpers (read together with their caller by inline_helpers)
    V("helpers extracted (b1 shape), the leaf helper reports NON-empty elements", "break", _L, _OA, _helpers_shape("isinstance(task, Parallel) and len(task.tasks) > 0", _USE_ELIF), "O11.2"),
    V("helpers extracted (b1 shape), the result of the leaf helper is ignored", "break", _L, _OA, _helpers_shape("isinstance(task, Parallel) and len(task.tasks) == 0", "            else:\n                self._remove_filtered_leafs(challenge, task)"), "O11.2"),
    V("helpers extracted (b1 shape), the leaf helper is only called for removed elements", "break", _L, _OA,
      _helpers_shape("isinstance(task, Parallel) and len(task.tasks) == 0", "                if self._remove_filtered_leafs(challenge, task):\n                    pass"), "O11."),
    V("leaf helper with guard clause, or-combined with the match routine", "keep", _L, _OA, """        for challenge in track.challenges:
            doomed = []
            for element in challenge.schedule:
                if self._filter_out_match(element) or self._emptied(challenge, element):
                    doomed.append(element)
            for element in doomed:
                challenge.remove_task(element)

        return track

    def _emptied(self, challenge, element):
        if not isinstance(element, Parallel):
            return False
        gone = [leaf for leaf in element if self._filter_out_match(leaf)]
        for leaf in gone:
            element.remove_task(leaf)
        return not element.tasks
"""),
    V("leaf helper with guard clause, or-combined, reports emptiness of the wrong kind", "break", _L, _OA, """        for challenge in track.challenges:
            doomed = []
            for element in challenge.schedule:
                if self._filter_out_match(element) or self._emptied(challenge, element):
                    doomed.append(element)
            for element in doomed:
                challenge.remove_task(element)

        return track

    def _emptied(self, challenge, element):
        if not isinstance(element, Parallel):
            return False
        gone = [leaf for leaf in element if self._filter_out_match(leaf)]
        for leaf in gone:
            element.remove_task(leaf)
        return not gone
""", "O11."),
    V("helper returns the removal list, guard-clause continue, static emptiness predicate", "keep", _L, _OA, """        for challenge in track.challenges:
            for task in self._tasks_to_remove(challenge):
                self.logger.info("Removing task [%s] from challenge [%s] due to task filter.", task, challenge)
                challenge.remove_task(task)

        return track

    @staticmethod
    def _is_empty_parallel(task):
        return isinstance(task, Parallel) and not task.tasks

    def _tasks_to_remove(self, challenge):
        result = []
        for task in challenge.schedule:
            if self._filter_out_match(task):
                result.append(task)
                continue
            for leaf_task in [leaf for leaf in task if self._filter_out_match(leaf)]:
                task.remove_task(leaf_task)
            if self._is_empty_parallel(task):
                result.append(task)
        return result
"""),
    V("helper returns the removal list but the caller never removes its elements", "break", _L, _OA, """        for challenge in track.challenges:
            for task in self._tasks_to_remove(challenge):
                self.logger.info("Removing task [%s] from challenge [%s] due to task filter.", task, challenge)

        return track

    def _tasks_to_remove(self, challenge):
        result = []
        for task in challenge.schedule:
            if self._filter_out_match(task):
                result.append(task)
                continue
            for leaf_task in [leaf for leaf in task if self._filter_out_match(leaf)]:
                task.remove_task(leaf_task)
            if isinstance(task, Parallel) and not task.tasks:
                result.append(task)
        return result
""", "O11.2"),
    # second pass only for parallel elements, comprehension queue (b3 shape)
    V("b3 shape: leaf pass only for NON-parallel elements", "break", _L, _OA, _B3.format(guard="not isinstance(task, Parallel)", extra=""), "O11.3"),
    V("b3 shape: the leaf comprehension has a further condition", "break", _L, _OA, _B3.format(guard="isinstance(task, Parallel)", extra=" and leaf_task.clients > 1"), "O11.3"),
    V("b3 shape with hasattr as the parallel test", "keep", _L, _OA, _B3.format(guard="hasattr(task, 'tasks')", extra="")),
    V("match routine as one expression per arm (b3 shape), parallel special case inverted", "break", _L, _FO,
      "        if any(task.matches(f) for f in self.filters):\n            return self.exclude or not hasattr(task, \"tasks\")\n        return not self.exclude\n", "O11.1"),
    # direct removal over a copy / a removal list that is not reset / additive features
    V("direct removal while iterating COPIES", "keep", _L, _OA, """        for challenge in track.challenges:
            for task in list(challenge.schedule):
                if self._filter_out_match(task):
                    challenge.remove_task(task)
                    continue
                for leaf_task in list(task):
                    if self._filter_out_match(leaf_task):
                        task.remove_task(leaf_task)
                if isinstance(task, Parallel) and not task.tasks:
                    challenge.remove_task(task)

        return track
"""),
    V("direct removal while iterating the schedule itself", "break", _L, _OA, """        for challenge in track.challenges:
            for task in challenge.schedule:
                if self._filter_out_match(task):
                    challenge.remove_task(task)
                    continue
                for leaf_task in list(task):
                    if self._filter_out_match(leaf_task):
                        task.remove_task(leaf_task)
                if isinstance(task, Parallel) and not task.tasks:
                    challenge.remove_task(task)

        return track
""", "O11.3"),
    V("removal list created once for all challenges (edit 2 of seed m9 alone)", "break", _L,
      "        for challenge in track.challenges:\n            # don't modify the schedule while iterating over it\n            tasks_to_remove = []\n            for task in challenge.schedule:\n                if self._filter_out_match(task):\n",
      "        tasks_to_remove = []\n        for challenge in track.challenges:\n            for task in challenge.schedule:\n                if self._filter_out_match(task):\n", "O11.3"),
    V("counters, a summary log line and attributes of the processor itself", "keep", _L,
      "            for task in tasks_to_remove:\n                self.logger.info(\"Removing task [%s] from challenge [%s] due to task filter.\", task, challenge)\n                challenge.remove_task(task)\n",
      "            for task in tasks_to_remove:\n                self.logger.info(\"Removing task [%s] from challenge [%s] due to task filter.\", task, challenge)\n                challenge.remove_task(task)\n"
      "            self.removed_tasks += len(tasks_to_remove)\n            self.removed_per_challenge[challenge.name] = len(tasks_to_remove)\n"),
    V("the hook re-writes the filters of the processor", "break", _L,
      "            for task in tasks_to_remove:\n                self.logger.info(\"Removing task [%s] from challenge [%s] due to task filter.\", task, challenge)\n                challenge.remove_task(task)\n",
      "            for task in tasks_to_remove:\n                self.logger.info(\"Removing task [%s] from challenge [%s] due to task filter.\", task, challenge)\n                challenge.remove_task(task)\n"
      "            self.filters = self.filters[1:]\n", "O11.3"),
    # constructor: mode and list decided on values
    V("mode as `not include_tasks`, list as `include_tasks or exclude_tasks`", "keep", _L, _INIT,
      "        self.exclude = not include_tasks\n        self.filters = self._filters_from_filtered_tasks(include_tasks or exclude_tasks)\n"),
    V("exclude list wins when both lists are given", "break", _L, _INIT,
      "        self.exclude = bool(exclude_tasks)\n        self.filters = self._filters_from_filtered_tasks(exclude_tasks or include_tasks)\n", "O11.1"),
    [V("mode attribute renamed with flipped polarity (include_mode)", "keep", _L, _INIT,
       "        self.include_mode = bool(include_tasks)\n        self.filters = self._filters_from_filtered_tasks(include_tasks if include_tasks else exclude_tasks)\n"),
     V("(second edit: the match routine reads include_mode)", "keep", _L, _FO,
       "        for f in self.filters:\n            if task.matches(f):\n                if hasattr(task, \"tasks\") and not self.include_mode:\n                    return False\n                return not self.include_mode\n        return self.include_mode\n")],
    [V("include_mode, but the match arm returns the mode itself", "break", _L, _INIT,
       "        self.include_mode = bool(include_tasks)\n        self.filters = self._filters_from_filtered_tasks(include_tasks if include_tasks else exclude_tasks)\n", "O11.1"),
     V("(second edit)", "break", _L, _FO,
       "        for f in self.filters:\n            if task.matches(f):\n                if hasattr(task, \"tasks\") and not self.include_mode:\n                    return False\n                return self.include_mode\n        return self.include_mode\n", "O11.1")],
    # spec parsing: table dispatch (b2 shape), comprehension with helper
    [V("prefix table (b2 shape) maps type: to the name filter", "break", _L, _FF, _TABLE_FF, "O11.1"), V("(second edit: the table)", "break", _L, _CLS, _table("TaskNameFilter"), "O11.1")],
    [V("prefix table (b2 shape), items handled as lower case", "break", _L, _FF, _TABLE_FF.replace("t.split(TASK_FILTER_SEPARATOR)", "t.lower().split(TASK_FILTER_SEPARATOR)"), "O11.1"),
     V("(second edit: the table)", "break", _L, _CLS, _table("TaskOpTypeFilter"), "O11.1")],
    V("spec parsing as a comprehension over a helper using rpartition", "keep", _L, _FF, """        return [self._filter_for(t) for t in filtered_tasks or []]

    def _filter_for(self, t):
        kind, sep, value = t.rpartition(":")
        if not sep:
            return track.TaskNameFilter(value)
        if kind == "type":
            return track.TaskOpTypeFilter(value)
        if kind == "tag":
            return track.TaskTagFilter(value)
        raise exceptions.SystemSetupError(f"Invalid format for filtered tasks: [{t}]")
"""),
    V("spec parsing stops after the first plain task name", "break", _L, "                if len(spec) == 1:\n                    filters.append(track.TaskNameFilter(spec[0]))\n",
      "                if len(spec) == 1:\n                    filters.append(track.TaskNameFilter(spec[0]))\n                    break\n", "O11.1"),
    # match routine: helper that scans the filters, first filter only
    V("match routine asks a search-loop helper", "keep", _L, _FO, """        if self._matches_any(task):
            return self.exclude and not hasattr(task, "tasks")
        return not self.exclude

    def _matches_any(self, element):
        for f in self.filters:
            if element.matches(f):
                return True
        return False
"""),
    V("search-loop helper only consults the first filter", "break", _L, _FO, """        if self._matches_any(task):
            return self.exclude and not hasattr(task, "tasks")
        return not self.exclude

    def _matches_any(self, element):
        for f in self.filters:
            return element.matches(f)
        return False
""", "O11.1"),
    V("match routine with flag and break", "keep", _L, _FO, """        matched = False
        for f in self.filters:
            if task.matches(f):
                matched = True
                break
        if not matched:
            return not self.exclude
        if isinstance(task, Parallel):
            return False
        return self.exclude
"""),
    # filter classes / Task: decided on values
    V("name filter: attribute renamed, guard form", "keep", _T, _NF, "class TaskNameFilter:\n    def __init__(self, task_name):\n        self._task_name = task_name\n\n    def matches(self, t):\n        if t.name != self._task_name:\n            return False\n        return True\n"),
    V("name filter matches prefixes", "break", _T, _NF, "class TaskNameFilter:\n    def __init__(self, name):\n        self.name = name\n\n    def matches(self, task):\n        return task.name.startswith(self.name)\n", "O11.1"),
    V("name filter strips its argument", "break", _T, _NF, "class TaskNameFilter:\n    def __init__(self, name):\n        self.name = name.strip()\n\n    def matches(self, task):\n        return self.name == task.name\n", "O11.1"),
    V("tag filter via any(==)", "keep", _T, _TF, "class TaskTagFilter:\n    def __init__(self, tag_name):\n        self.tag = tag_name\n\n    def matches(self, task):\n        return any(self.tag == t for t in task.tags)\n"),
    V("tag filter matches substrings of a tag", "break", _T, _TF, "class TaskTagFilter:\n    def __init__(self, tag_name):\n        self.tag_name = tag_name\n\n    def matches(self, task):\n        return any(self.tag_name in t for t in task.tags)\n", "O11.1"),
    V("Task.matches asks the filter about the operation", "break", _T, "        return task_filter.matches(self)\n", "        return task_filter.matches(self.operation)\n", "O11.1"),
    V("Task.matches negates nothing but goes through a local", "keep", _T, "        return task_filter.matches(self)\n", "        selected = task_filter.matches(self)\n        self_check = selected is True\n        return selected and self_check\n"),
    [V("tags normalised by a module-level helper", "keep", _T, "        if isinstance(tags, str):\n            self.tags = [tags]\n        elif tags:\n            self.tags = tags\n        else:\n            self.tags = []\n", "        self.tags = _as_list(tags)\n"),
     V("(second edit: the helper)", "keep", _T, "class TaskNameFilter:\n", "def _as_list(v):\n    if not v:\n        return []\n    return [v] if isinstance(v, str) else v\n\n\nclass TaskNameFilter:\n")],
    [V("tags helper turns a string into its characters", "break", _T, "        if isinstance(tags, str):\n            self.tags = [tags]\n        elif tags:\n            self.tags = tags\n        else:\n            self.tags = []\n", "        self.tags = _as_list(tags)\n", "O11.1"),
     V("(second edit: the helper)", "break", _T, "class TaskNameFilter:\n", "def _as_list(v):\n    return list(v) if v else []\n\n\nclass TaskNameFilter:\n", "O11.1")],
    V("Challenge.remove_task idempotent (edit 1 of seed m9 alone: neutral)", "keep", _T, "        self.schedule.remove(task)\n", "        if task in self.schedule:\n            self.schedule.remove(task)\n"),
    V("Parallel.remove_task rebuilds the list by identity", "keep", _T, "        self.tasks.remove(task)\n", "        self.tasks = [t for t in self.tasks if t is not task]\n"),
    V("Parallel.remove_task drops everything from the removed task on", "break", _T, "        self.tasks.remove(task)\n", "        self.tasks = self.tasks[: self.tasks.index(task)]\n", "O11.3"),
]

_FS = """        for challenge in track.challenges:
            tasks_to_remove = []
            for task in challenge.schedule:
                if self._filter_out_match(task):
                    tasks_to_remove.append(task)
                elif isinstance(task, Parallel):
                    task.tasks = [leaf for leaf in task.tasks if {keep}]
{empty}            for task in tasks_to_remove:
                challenge.remove_task(task)

        return track
"""
_FS_EMPTY = "                    if not task.tasks:\n                        tasks_to_remove.append(task)\n"
VARIANTS += [
    V("leaves removed by a filtering store `task.tasks = [leaf for leaf in task.tasks if not <match>]`", "keep", _L, _OA, _FS.format(keep="not self._filter_out_match(leaf)", empty=_FS_EMPTY)),
    V("filtering store keeps exactly the leaves the filters remove", "break", _L, _OA, _FS.format(keep="self._filter_out_match(leaf)", empty=_FS_EMPTY), "O11.3"),
    V("filtering store keeps a leaf under a further condition", "break", _L, _OA, _FS.format(keep="not self._filter_out_match(leaf) or leaf.clients > 1", empty=_FS_EMPTY), "O11.3"),
    V("filtering store without an emptiness test afterwards", "break", _L, _OA, _FS.format(keep="not self._filter_out_match(leaf)", empty=""), "O11.2"),
    [V("the options are read through a helper of the processor", "keep", _L, "        include_tasks = cfg.opts(\"track\", \"include.tasks\", mandatory=False)\n        exclude_tasks = cfg.opts(\"track\", \"exclude.tasks\", mandatory=False)\n",
       "        include_tasks = self._task_list(cfg, \"include.tasks\")\n        exclude_tasks = self._task_list(cfg, \"exclude.tasks\")\n"),
     V("(second edit: the helper)", "keep", _L, "    def _filter_out_match(self, task):\n", "    @staticmethod\n    def _task_list(cfg, key):\n        return cfg.opts(\"track\", key, mandatory=False)\n\n    def _filter_out_match(self, task):\n")],
]

# ---- hardening round 3 (benign/C11-b6 and further refactorings of the same functions): the match routine and Parallel.matches are INTERPRETED on representative elements / probe
# filters (any shape the value interpreter runs: a result computed once and branched on per mode, map(), comparison with the mode, table dispatch, next()); conditions on a
# schedule element are classified by VALUE (emptied / parallel) where their spelling is not one of the usual ones - each accepted shape with a defect placed inside it ----------
_B6 = "        matched = any(task.matches(f) for f in self.filters)\n        if self.exclude:\n            return matched{par}\n        return not matched\n"
_TBL_FO = "        matched = any(task.matches(f) for f in self.filters)\n        is_parallel = isinstance(task, Parallel)\n        return _FILTER_OUT[(self.exclude, is_parallel, matched)]\n"


def _fo_table(last):
    return ("# (exclude mode, parallel element, some filter matches) -> remove the element\n_FILTER_OUT = {\n    (False, False, False): True,\n    (False, False, True): False,\n"
            "    (False, True, False): True,\n    (False, True, True): False,\n    (True, False, False): False,\n    (True, False, True): True,\n    (True, True, False): False,\n"
            f"    (True, True, True): {last},\n}}\n\n\n") + _CLS


_PM = "        for task in self.tasks:\n            if task.matches(task_filter):\n                return True\n        return False\n"
_EM = "                    if isinstance(task, Parallel) and len(task.tasks) == 0:\n                        tasks_to_remove.append(task)\n"
_RM = ("                    for leaf_task in leafs_to_remove:\n                        self.logger.info(\"Removing sub-task [%s] from challenge [%s] due to task filter.\", leaf_task, challenge)\n"
       "                        task.remove_task(leaf_task)\n")
_PRT = "    def remove_task(self, task):\n        self.tasks.remove(task)\n\n    def __iter__(self):"
_EARLY = "        if not self.filters:\n            return track\n"


def _em(cond, pre=""):
    return pre + "                    if " + cond + ":\n                        tasks_to_remove.append(task)\n"


def _passes(sweep_cond, sweep_first=False):
    top = "            for task in [t for t in challenge.schedule if self._filter_out_match(t)]:\n                challenge.remove_task(task)\n"
    leaves = ("            for task in challenge.schedule:\n                if isinstance(task, Parallel):\n                    for leaf_task in [leaf for leaf in task if self._filter_out_match(leaf)]:\n"
              "                        task.remove_task(leaf_task)\n")
    sweep = f"            for task in [t for t in challenge.schedule if {sweep_cond}]:\n                challenge.remove_task(task)\n"
    return "        for challenge in track.challenges:\n" + top + (sweep + leaves if sweep_first else leaves + sweep) + "\n        return track\n"


VARIANTS += [
    # the match routine, by value
    V("b6 shape: `matched` computed once, one branch per mode", "keep", _L, _FO, _B6.format(par=" and not isinstance(task, Parallel)")),
    V("b6 shape, the special case for parallel elements dropped", "break", _L, _FO, _B6.format(par=""), "O11.1"),
    V("match routine: map() over the bound method, result compared with the mode", "keep", _L, _FO,
      "        matched = any(map(task.matches, self.filters))\n        if isinstance(task, Parallel):\n            return not self.exclude and not matched\n        return matched == self.exclude\n"),
    V("match routine: compared with the mode, no special case for parallel elements", "break", _L, _FO, "        matched = any(map(task.matches, self.filters))\n        return matched == self.exclude\n", "O11.1"),
    V("match routine: map() over the first filter only", "break", _L, _FO,
      "        matched = any(map(task.matches, self.filters[:1]))\n        if isinstance(task, Parallel):\n            return not self.exclude and not matched\n        return matched == self.exclude\n", "O11.1"),
    V("match routine: the parallel test reads the `nested` flag of the element", "keep", _L, _FO,
      "        matched = any(task.matches(f) for f in self.filters)\n        if not matched:\n            return not self.exclude\n        return self.exclude and not task.nested\n"),
    V("match routine: `nested` flag read with the wrong polarity", "break", _L, _FO,
      "        matched = any(task.matches(f) for f in self.filters)\n        if not matched:\n            return not self.exclude\n        return self.exclude and task.nested\n", "O11.1"),
    [V("match routine as a table over (mode, parallel, matched)", "keep", _L, _FO, _TBL_FO), V("(second edit: the table)", "keep", _L, _CLS, _fo_table("False"))],
    [V("match routine as a table, entry for (exclude, parallel, matched) wrong", "break", _L, _FO, _TBL_FO, "O11.1"), V("(second edit: the table)", "break", _L, _CLS, _fo_table("True"), "O11.1")],
    V("match routine: list of the matching filters, logged", "keep", _L, _FO,
      "        matching = [f for f in self.filters if task.matches(f)]\n        if not matching:\n            return not self.exclude\n"
      "        self.logger.debug(\"Task [%s] matches filters %s\", task, matching)\n        return self.exclude and not isinstance(task, (Parallel,))\n"),
    # Parallel.matches, by value
    V("parallel matches via next() with a default", "keep", _T, _PM, "        return next((True for t in self.tasks if t.matches(task_filter)), False)\n"),
    V("parallel matches via next(), default True (an emptied element matches everything)", "break", _T, _PM, "        return next((True for t in self.tasks if t.matches(task_filter)), True)\n", "O11.1"),
    V("parallel matches via map() over the filter's own matches()", "keep", _T, _PM, "        return any(map(task_filter.matches, self.tasks))\n"),
    V("parallel matches: bool() of the leaves that do NOT match", "break", _T, _PM, "        return bool([t for t in self.tasks if not t.matches(task_filter)])\n", "O11.1"),
    # emptiness tests, by value
    V("emptiness as `not len(...)`", "keep", _L, _EM, _em("isinstance(task, Parallel) and not len(task.tasks)")),
    V("`len(...)` as the emptiness test (true for NON-empty elements)", "break", _L, _EM, _em("isinstance(task, Parallel) and len(task.tasks)"), "O11.2"),
    V("emptiness on the `nested` flag and the list", "keep", _L, _EM, _em("task.nested and not task.tasks")),
    V("emptiness computed into a local after the leaves were removed", "keep", _L, _EM, _em("emptied", "                    emptied = isinstance(task, Parallel) and not task.tasks\n")),
    [V("emptiness computed into a local BEFORE the leaves are removed (stale)", "break", _L, _RM, "                    emptied = isinstance(task, Parallel) and not task.tasks\n" + _RM, "O11.2"),
     V("(second edit: the test)", "break", _L, _EM, _em("emptied"), "O11.2")],
    [V("emptiness asked through a new method of Parallel", "keep", _L, _EM, _em("isinstance(task, Parallel) and task.is_empty()")),
     V("(second edit: the method)", "keep", _T, _PRT, "    def remove_task(self, task):\n        self.tasks.remove(task)\n\n    def is_empty(self):\n        return not self.tasks\n\n    def __iter__(self):")],
    [V("new method of Parallel answers the opposite", "break", _L, _EM, _em("isinstance(task, Parallel) and task.is_empty()"), "O11.2"),
     V("(second edit: the method)", "break", _T, _PRT, "    def remove_task(self, task):\n        self.tasks.remove(task)\n\n    def is_empty(self):\n        return bool(self.tasks)\n\n    def __iter__(self):", "O11.2")],
    V("three passes per challenge: top-level elements, leaves, emptied parallel elements", "keep", _L, _OA, _passes("isinstance(t, Parallel) and not t.tasks")),
    V("three passes, the last one removes the NON-empty parallel elements", "break", _L, _OA, _passes("isinstance(t, Parallel) and t.tasks"), "O11."),
    V("three passes, emptied elements swept BEFORE the leaves are removed", "break", _L, _OA, _passes("isinstance(t, Parallel) and not t.tasks", sweep_first=True), "O11.2"),
    # the hook: additive pass over the challenges, early returns
    V("a counting pass over the challenges before the filtering loop", "keep", _L, _OA,
      "        total = 0\n        for challenge in track.challenges:\n            total += len(challenge.schedule)\n        self.logger.info(\"Filtering %d schedule elements.\", total)\n" + _OA),
    V("early return also for a track without challenges", "keep", _L, _EARLY, "        if len(self.filters) == 0 or not track.challenges:\n            return track\n"),
    V("early return when there ARE filters", "break", _L, _EARLY, "        if len(self.filters) >= 1:\n            return track\n", "O11.3"),
]

# ---- strengthening round 5 (seeded/C11-m14): the leaf pass reaches EVERY leaf of EVERY kept parallel element that still has sub-tasks. Conditions between the loop over the schedule
# and the leaf queue are decided on values (parallel element with 1 / 2 / 3 sub-tasks, client count derived / explicit), the queue is also located when the leaves are taken into a
# local first, and the hook as a whole is INTERPRETED on model schedules and compared with what the property keeps ----------
_LQ = "                    for leaf_task in task:\n                        if self._filter_out_match(leaf_task):\n                            leafs_to_remove.append(leaf_task)\n"


def _lq(guard=None, over="leaf_tasks", pre="                    leaf_tasks = list(task)\n", tail=""):
    ind = "    " if guard else ""
    return (pre + (f"                    if {guard}:\n" if guard else "") + f"{ind}                    for leaf_task in {over}:\n{ind}                        if self._filter_out_match(leaf_task):\n"
            f"{ind}                            leafs_to_remove.append(leaf_task)\n" + tail)


VARIANTS += [
    V("seed m14: the leaf pass is skipped for elements with a single leaf", "break", _L, _LQ, _lq("len(leaf_tasks) > 1"), "O11.3"),
    V("leaf pass only for parallel elements with more than one sub-task", "break", _L, _LQ, _lq("isinstance(task, Parallel) and len(task.tasks) > 1", over="task", pre=""), "O11.3"),
    V("leaf pass only for elements with more than one client", "break", _L, _LQ, _lq("task.clients > 1", over="task", pre=""), "O11.3"),
    V("leaf pass skips the first leaf of every element", "break", _L, _LQ, _lq(None, over="leaf_tasks[1:]"), "O11.3"),
    V("leaf pass stops after the first leaf it queues", "break", _L, _LQ, _lq(None, over="task", pre="", tail="                            break\n"), "O11.3"),
    V("leaves taken into a local first, no guard", "keep", _L, _LQ, _lq(None)),
    V("leaves taken into a local first, pass guarded by `if leaf_tasks`", "keep", _L, _LQ, _lq("leaf_tasks")),
    V("leaf pass guarded by a test that holds for every parallel element with sub-tasks", "keep", _L, _LQ, _lq("not isinstance(task, Parallel) or len(task.tasks) >= 1", over="task", pre="")),
]

# ---- strengthening round 6 (seeded/C11-m17, C11-m18): the value of a type: / tag: filter is the text after the colon whatever characters it begins / ends with (spec parsing decided
# on values that begin / end with characters of the keyword, repeat it, name the other keyword); the progress routine of the driver, interpreted on a model run of three steps, names
# the tasks of exactly the executing step for EVERY step index (and of no step before the first join point)
_PG = "        if not self.quiet and self.current_step >= 0:\n"
VARIANTS += [
    V("seed m17: operation type taken with str.lstrip('type:')", "break", _L, "track.TaskOpTypeFilter(spec[1])", "track.TaskOpTypeFilter(t.lstrip(\"type:\"))", "O11.1"),
    V("seed m17: tag taken with str.lstrip('tag:')", "break", _L, "track.TaskTagFilter(spec[1])", "track.TaskTagFilter(t.lstrip(\"tag:\"))", "O11.1"),
    V("tag taken by deleting the keyword everywhere in the item", "break", _L, "track.TaskTagFilter(spec[1])", "track.TaskTagFilter(t.replace(\"tag\", \"\")[1:])", "O11.1"),
    V("operation type taken with str.strip(':epyt')", "break", _L, "track.TaskOpTypeFilter(spec[1])", "track.TaskOpTypeFilter(t.strip(\":epyt\"))", "O11.1"),
    V("operation type cut at the wrong offset", "break", _L, "track.TaskOpTypeFilter(spec[1])", "track.TaskOpTypeFilter(t[len(\"tag:\"):])", "O11.1"),
    V("tag taken as a slice behind the prefix", "keep", _L, "track.TaskTagFilter(spec[1])", "track.TaskTagFilter(t[len(\"tag:\"):])"),
    V("operation type taken with str.removeprefix", "keep", _L, "track.TaskOpTypeFilter(spec[1])", "track.TaskOpTypeFilter(t.removeprefix(\"type:\"))"),
    V("tag taken with str.partition", "keep", _L, "track.TaskTagFilter(spec[1])", "track.TaskTagFilter(t.partition(\":\")[2])"),
    V("seed m18: the first step is never reported (counter > 0)", "break", _D, _PG, "        if not self.quiet and self.current_step > 0:\n", "O11.4"),
    V("the first step is never reported (counter truthy)", "break", _D, _PG, "        if not self.quiet and self.current_step:\n", "O11.4"),
    V("progress message names the tasks of the previous step", "break", _D, "self.tasks_per_join_point[self.current_step]])", "self.tasks_per_join_point[self.current_step - 1]])", "O11.4"),
    V("progress message before the first join point names the last step", "break", _D, _PG, "        if not self.quiet and self.current_step >= -1:\n", "O11.4"),
    V("progress guard respelled (counter > -1)", "keep", _D, _PG, "        if not self.quiet and self.current_step > -1:\n"),
    V("progress guard respelled (early return, counter != -1)", "keep", _D, _PG, "        if self.quiet or self.current_step == -1:\n            return\n        if True:\n"),
    V("task names joined through a generator over a local", "keep", _D, "tasks = \",\".join([t.name for t in self.tasks_per_join_point[self.current_step]])",
      "step_tasks = self.tasks_per_join_point[self.current_step]\n            tasks = \",\".join(t.name for t in step_tasks)"),
]
