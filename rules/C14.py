"""C14 — corpus preparation ends with complete, verified data or an explicit error (DESIGN.md section 4, C14)."""
from __future__ import annotations

import ast

from sa import source
from sa.cfg import cfg_of, guards, facts, holds
from sa.minieval import CannotEval, ev
from sa.source import AnchorMissing, arg_of, dotted, is_self_attr, last_attr, local_defs, params_of, short, u, walk_body
from sa.sym import atoms_of, comparison

_N = "esrally/utils/net.py"
_I = "esrally/utils/io.py"
_L = "esrally/track/loader.py"


def raises_on_all_paths(g, starts):
    return bool(starts) and all(g.exit.id not in g.reachable([s]) for s in starts)


def offset_table_protocol(chk, io_mod, rid):
    """O14.6 / O3.7: writer and reader of the line-offset table agree."""
    if rid not in chk.rules:
        chk.rule(rid, "offset table: the writer counts one line per readline() and records (n, tell()) of the SAME byte-positioned file object only after the n-th line; the reader returns "
                 "(offset(L), target - L) for the largest L <= target; the skipper seeks, then reads exactly the remainder; separator and field order agree", 8,
                 "readers start mid-line or at the wrong line: documents duplicated / lost across clients (multi-byte content, files above 50,000 lines)")
    pf = io_mod.func("prepare_file_offset_table")
    g = cfg_of(pf)
    rl = [n for n in walk_body(pf) if isinstance(n, ast.Call) and last_attr(n.func) == "readline"]
    add = [n for n in walk_body(pf) if isinstance(n, ast.Call) and last_attr(n.func) == "add_offset"]
    inc = [n for n in walk_body(pf) if isinstance(n, ast.AugAssign) and isinstance(n.op, ast.Add) and source.is_const(n.value, 1)]
    if not add:
        raise AnchorMissing("add_offset call in prepare_file_offset_table")
    loop = source.enclosing(add[0], (ast.While, ast.For))
    ok = len(rl) == 1 and loop is not None and source.enclosing(rl[0], (ast.While, ast.For)) is loop
    fobj = u(rl[0].func.value) if rl else None
    chk.ob(rid, "writer reads the data file line by line with readline()", ok, rl[0] if rl else pf, "" if ok else "the file is iterated another way (tell() is not a byte position then)")
    ok = len(inc) == 1 and loop is not None and source.enclosing(inc[0], (ast.While, ast.For)) is loop and not guards(inc[0], stop=loop) and len(rl) == 1 and g.dominated_by_nodes(g.node_of(inc[0]), [g.node_of(rl[0])])
    cnt = u(inc[0].target) if inc else None
    chk.ob(rid, "line counter += 1 once per line read", ok, inc[0] if inc else pf, "")
    a = add[0]
    ok = len(a.args) == 2 and u(a.args[0]) == cnt and isinstance(a.args[1], ast.Call) and last_attr(a.args[1].func) == "tell" and u(a.args[1].func.value) == fobj
    chk.ob(rid, "recorded offset is tell() of the file object being read", ok, a, short(a, 80) + ("" if ok else " — a computed character/byte count is not the position to seek to"))
    ok = bool(inc) and g.dominated_by_nodes(g.node_of(a), [g.node_of(inc[0])]) and not g.path_exists(g.node_of(a), g.node_of(inc[0]), avoid=[g.node_of(loop)] if loop is not None else [])
    chk.ob(rid, "offset recorded after the counter was advanced for that line", ok, a, "")
    # end-of-file test: empty read breaks before counting
    brk = [n for n in walk_body(pf) if isinstance(n, ast.Break)]
    ok = bool(brk) and bool(inc) and bool(rl) and any(pol and u(t) in ("len(line) == 0", "not line", "line == ''") for t, pol in guards(brk[0], stop=loop)) and not g.path_exists(g.node_of(inc[0]), g.node_of(brk[0]), avoid=[g.node_of(loop)])
    chk.ob(rid, "an empty read ends the scan before it is counted", ok, brk[0] if brk else pf, "")
    rets = [n for n in walk_body(pf) if isinstance(n, ast.Return)]
    ok = any(u(r.value) == cnt for r in rets) and any(isinstance(r.value, ast.Constant) and r.value.value is None for r in rets)
    chk.ob(rid, "returns the number of lines read (None when no rebuild was needed)", ok, pf, "")
    op = [n for n in walk_body(pf) if isinstance(n, ast.Call) and dotted(n.func) == "open"]
    ok = bool(op) and (arg_of(op[0], None, "encoding") is not None or any(isinstance(x, ast.Constant) and "b" in str(x.value) for x in op[0].args[1:]))
    chk.ob(rid, "data file opened with a fixed encoding", ok, op[0] if op else pf, "")
    FT = io_mod.cls("FileOffsetTable")
    fm = io_mod.methods(FT)
    ao = fm.get("add_offset")
    fc = fm.get("find_closest_offset")
    wfmt = [n for n in walk_body(ao) if isinstance(n, ast.JoinedStr)] if ao else []
    wf = None
    if wfmt:
        parts = wfmt[0].values
        if len(parts) == 3 and isinstance(parts[1], ast.Constant):
            wf = (u(parts[0].value), parts[1].value, u(parts[2].value))
    rd = [n for n in walk_body(fc) if isinstance(n, ast.Assign) and isinstance(n.targets[0], ast.Tuple) and any(isinstance(x, ast.Call) and last_attr(x.func) == "split" for x in ast.walk(n.value))] if fc else []
    ok = False
    if wf and rd:
        sp = [x for x in ast.walk(rd[0].value) if isinstance(x, ast.Call) and last_attr(x.func) == "split"][0]
        ln, off = [t.id for t in rd[0].targets[0].elts]
        ap = params_of(ao)
        ok = source.is_const(sp.args[0], wf[1]) and wf[0] == ap[1] and wf[2] == ap[2] and "line" in ln and "offset" in off
    chk.ob(rid, "writer format and reader parse agree (separator, field order)", ok, rd[0] if rd else FT, f"writer {wf}")
    ok = False
    if rd:
        ln, off = [t.id for t in rd[0].targets[0].elts]
        tgt = params_of(fc)[1]
        floop = source.enclosing(rd[0], ast.For)
        stores = [n for n in ast.walk(floop) if isinstance(n, ast.Assign) and n is not rd[0] and isinstance(n.targets[0], ast.Name)] if floop is not None else []
        brks = [n for n in ast.walk(floop) if isinstance(n, ast.Break)] if floop is not None else []
        vals = {u(s_.value) for s_ in stores}
        ok = bool(stores) and bool(brks) and all(holds(s_, f"{ln} <= {tgt}", stop=floop) for s_ in stores) and all(holds(b_, f"{ln} > {tgt}", stop=floop) for b_ in brks) \
            and off in vals and f"{tgt} - {ln}" in vals
    chk.ob(rid, "reader: largest L <= target, remaining = target - L, stops at the first larger entry", ok, fc if fc else FT, "")
    rr = [n for n in walk_body(fc) if isinstance(n, ast.Return)] if fc else []
    inits = {u(n.targets[0]): n.value for n in walk_body(fc) if isinstance(n, ast.Assign) and isinstance(n.targets[0], ast.Name) and source.enclosing(n, ast.For) is None} if fc else {}
    ok = bool(rr) and isinstance(rr[0].value, ast.Tuple) and len(rr[0].value.elts) == 2 and source.is_const(inits.get(u(rr[0].value.elts[0])), 0) and u(inits.get(u(rr[0].value.elts[1]))) == params_of(fc)[1]
    chk.ob(rid, "reader defaults: offset 0 and all lines remaining", ok, rr[0] if rr else FT, "")
    sk = io_mod.func("skip_lines")
    gs_ = cfg_of(sk)
    seek = [n for n in walk_body(sk) if isinstance(n, ast.Call) and last_attr(n.func) == "seek"]
    rls = [n for n in walk_body(sk) if isinstance(n, ast.Call) and last_attr(n.func) == "readline"]
    un = [n for n in walk_body(sk) if isinstance(n, ast.Assign) and isinstance(n.targets[0], ast.Tuple) and isinstance(n.value, ast.Call) and last_attr(n.value.func) == "find_closest_offset"]
    ok = False
    if seek and rls and un:
        offv, remv = [t.id for t in un[0].targets[0].elts]
        lp = source.enclosing(rls[0], ast.For)
        ok = u(seek[0].args[0]) == offv and lp is not None and u(lp.iter) == f"range({remv})" and gs_.dominated_by_nodes(gs_.node_of(rls[0]), [gs_.node_of(seek[0])]) and u(un[0].value.args[0]) == params_of(sk)[2] \
            and u(seek[0].func.value) == u(rls[0].func.value) == params_of(sk)[1]
    chk.ob(rid, "skipper: seek(offset) then exactly `remaining` readline() calls on the same file", ok, sk, "")
    fb = [n for n in walk_body(sk) if isinstance(n, ast.Assign) and isinstance(n.targets[0], ast.Name) and u(n.value) == params_of(sk)[2]]
    chk.ob(rid, "without a table all lines are skipped one by one from offset 0", bool(fb), sk, "")
    # freshness: a table is used only when it exists and is at least as new as the data file; the scan is skipped only for such a table
    from sa import pat
    iv = fm.get("is_valid")
    ent = fm.get("__enter__")
    finit = fm.get("__init__")
    T = D = None
    if ent is not None:
        for n in walk_body(ent):
            if isinstance(n, ast.Call) and dotted(n.func) == "open" and n.args and is_self_attr(n.args[0]):
                T = n.args[0].attr
    if finit is not None:
        first = params_of(finit)[1]
        for n in walk_body(finit):
            if isinstance(n, ast.Assign) and is_self_attr(n.targets[0]) and u(n.value) == first:
                D = n.targets[0].attr
    ok = False
    detail = ""
    if iv is not None and T and D and T != D:
        rv = [n for n in walk_body(iv) if isinstance(n, ast.Return)]
        if len(rv) == 1:
            from sa.cfg import conjuncts
            cj = conjuncts(rv[0].value)
            has_exists = any(isinstance(c, ast.Call) and u(c.func) == "self.exists" for c in cj)
            fresh = any(pat.is_(c, f"os.path.getmtime(self.{T}) >= os.path.getmtime(self.{D})", f"os.path.getmtime(self.{T}) > os.path.getmtime(self.{D})") for c in cj)
            ok = has_exists and fresh and len(cj) == 2
            detail = u(rv[0].value)
    chk.ob(rid, "table valid iff it exists and its mtime >= the data file's mtime", ok, iv if iv is not None else FT, detail, key=f"{io_mod.relpath}:FileOffsetTable.is_valid:freshness")
    ivc = [n for n in walk_body(pf) if isinstance(n, ast.Call) and last_attr(n.func) == "is_valid"]
    ok = len(ivc) == 1 and loop is not None and any(f_ is not None for f_ in [pat.guarded(loop, "not E_t.is_valid()")]) and bool(rets) \
        and all(pat.guarded(r, "not E_t.is_valid()") is None for r in rets if isinstance(r.value, ast.Constant) and r.value.value is None)
    chk.ob(rid, "the scan runs iff the table is not valid; None is returned only for a valid table", ok, ivc[0] if ivc else pf, "", key=f"{io_mod.relpath}:prepare_file_offset_table:rebuild-guard")


def run(chk):
    repo = chk.repo
    net, io_, ldr = repo.module(_N), repo.module(_I), repo.module(_L)
    chk.use(net, io_, ldr)
    chk.explanation = (
        "Decides the preparation skeleton: downloads write only to a temporary name which is renamed once, behind a size check whose mismatch edge removes it and raises, with a broad "
        "handler that removes it and re-raises; HTTP statuses evaluated over a finite domain (every non-2xx raises); retry loop range(N+1) for the two protocol errors with re-raise on "
        "the last index; existence and size verification after download and after decompression; the state loop exits only under present-and-expected-size and is followed by the offset "
        "table build whose line-count check uses `is not None`; exhaustive archive dispatch with the library fallback on every path; offset table writer/reader protocol."
    )
    chk.not_decided = "archive contents, real network behaviour, crash points inside library calls, atomicity of the offset-table write (advisory O14.7: no failing history could be produced)."

    # ---- O14.1 download is atomic ---------------------------------------------------------------------------------------------------------
    chk.rule("O14.1", "net.download: every writer receives the temporary path, never the final one; the final name is produced by a single rename(tmp, final) dominated by the size comparison "
             "whose mismatch edge removes tmp and raises; the broad handler around the transfer removes tmp and re-raises", 6,
             "an interrupted or short download leaves a partial file under the final name, which the next run accepts when no size is declared")
    dl = net.func("download")
    dp = params_of(dl)
    final = dp[1]
    g = cfg_of(dl)
    ddefs = local_defs(dl)
    tmpv = [k for k, v in ddefs.items() if isinstance(v, ast.BinOp) and isinstance(v.op, ast.Add) and u(v.left) == final and isinstance(v.right, ast.Constant)]
    if not tmpv:
        raise AnchorMissing("temporary path `local_path + <suffix>` in net.download")
    tmp = tmpv[0]
    writers = [n for n in walk_body(dl) if isinstance(n, ast.Call) and last_attr(n.func) in ("download_http", "download_from_bucket", "_download_http")]
    chk.ob("O14.1", "transfer routines located", len(writers) >= 2, dl, f"{[last_attr(w.func) for w in writers]}")
    for w in writers:
        passes_final = any(isinstance(a, ast.Name) and a.id == final for a in list(w.args) + [k.value for k in w.keywords])
        passes_tmp = any(isinstance(a, ast.Name) and a.id == tmp for a in list(w.args) + [k.value for k in w.keywords])
        chk.ob("O14.1", f"{last_attr(w.func)} writes to the temporary path", passes_tmp and not passes_final, w, short(w, 90))
    ren = [n for n in walk_body(dl) if isinstance(n, ast.Call) and dotted(n.func) in ("os.rename", "os.replace", "shutil.move")]
    ok = len(ren) == 1 and [u(a) for a in ren[0].args] == [tmp, final]
    chk.ob("O14.1", "single rename(tmp, final)", ok, ren[0] if ren else dl, f"{len(ren)} rename(s)")
    sizes = [n for n in walk_body(dl) if isinstance(n, ast.If) and any(comparison(a) is not None and comparison(a)[1] == "!=" for a in atoms_of(n.test)) and "size" in u(n.test)]
    ok = False
    if ren and sizes:
        S = sizes[0]
        sn = g.node_of(S)
        ok = g.dominated_by_nodes(g.node_of(ren[0]), [sn]) and raises_on_all_paths(g, g.edge_targets(sn, "true")) and any(isinstance(x, ast.Call) and dotted(x.func) == "os.remove" and u(x.args[0]) == tmp for s in S.body for x in ast.walk(s))
        sz = ddefs.get("download_size")
        ok = ok and sz is not None and u(sz) == f"os.path.getsize({tmp})"
    chk.ob("O14.1", "rename only behind the size check; mismatch removes tmp and raises", ok, sizes[0] if sizes else dl, "")
    if sizes:
        # the check compares with the expected size whenever one is known
        ats = [u(a) for a in atoms_of(sizes[0].test)]
        chk.ob("O14.1", "size compared whenever an expected size is known", any("is not None" in a for a in ats) and len(ats) == 2, sizes[0], f"{ats}")
    trys = [n for n in walk_body(dl) if isinstance(n, ast.Try) and any(w in list(ast.walk(n)) for w in writers)]
    ok = False
    if trys:
        T = trys[0]
        broad = [h for h in T.handlers if h.type is None or last_attr(h.type) == "BaseException"]
        if broad:
            h = broad[0]
            rm = any(isinstance(x, ast.Call) and dotted(x.func) == "os.remove" and u(x.args[0]) == tmp for x in ast.walk(h))
            hn = g.by_ast.get(id(h), [])
            ok = rm and bool(hn) and all(g.exit.id not in g.reachable([x]) for x in hn) and isinstance(h.body[-1], ast.Raise) and h.body[-1].exc is None
    chk.ob("O14.1", "broad handler removes tmp and re-raises", ok, trys[0] if trys else dl, "")
    opens_final = [n for n in walk_body(dl) if isinstance(n, ast.Call) and dotted(n.func) == "open" and u(n.args[0]) == final]
    chk.ob("O14.1", "the final name is never opened for writing here", not opens_final, opens_final[0] if opens_final else dl, "")
    # the size the download is verified against is the DECLARED one; the transfer's own Content-Length may stand in only when nothing was declared
    from sa import pat
    dh = net.func("_download_http")
    ep = [p_ for p_ in params_of(dh) if "size" in p_]
    if not ep:
        raise AnchorMissing("expected-size parameter of _download_http")
    esz = ep[0]
    ow = [n for n in walk_body(dh) if isinstance(n, (ast.Assign, ast.AugAssign)) and any(isinstance(t, ast.Name) and t.id == esz for t in (n.targets if isinstance(n, ast.Assign) else [n.target]))]
    for n in ow:
        ok = pat.guarded(n, f"{esz} is None") is not None
        chk.ob("O14.1", "a declared expected size is never replaced by the response's own Content-Length", ok, n,
               short(n, 70) + ("" if ok else " — a truncated but self-consistent response passes the size check and is renamed to the final name"), key=f"{_N}:_download_http:overwrite-expected-size")
    rets_ = [n for n in walk_body(dh) if isinstance(n, ast.Return) and n.value is not None]
    chk.ob("O14.1", "the transfer returns the size to verify against (declared, else Content-Length)", bool(rets_) and all(u(r.value) == esz for r in rets_), rets_[0] if rets_ else dh, "")

    # ---- O14.2 retry budget / HTTP status --------------------------------------------------------------------------------------------------------
    chk.rule("O14.2", "HTTP retry loop: range(N + 1), retry only for the two urllib3 protocol classes, re-raise on the last index, result returned; every non-2xx status raises an HTTP error "
             "(status domain {200,204,299,300,304,399,400,404,500})", 12,
             "a dropped connection aborts at once / retries forever; a 3xx/4xx body is stored as the data file")
    dh = net.func("download_http")
    loops = [n for n in walk_body(dh) if isinstance(n, ast.For)]
    if not loops:
        raise AnchorMissing("retry loop in download_http")
    L = loops[0]
    ok = isinstance(L.iter, ast.Call) and dotted(L.iter.func) == "range" and len(L.iter.args) == 1 and u(L.iter.args[0]) in ("HTTP_DOWNLOAD_RETRIES + 1", "1 + HTTP_DOWNLOAD_RETRIES")
    chk.ob("O14.2", "range(HTTP_DOWNLOAD_RETRIES + 1)", ok, L, u(L.iter))
    const = net.module_constant("HTTP_DOWNLOAD_RETRIES")
    chk.ob("O14.2", "retry constant is a positive integer", isinstance(const, ast.Constant) and isinstance(const.value, int) and const.value > 0, const if const is not None else net.tree, "")
    T = [n for n in L.body if isinstance(n, ast.Try)]
    ok = False
    if T:
        t = T[0]
        ok = len(t.body) == 1 and isinstance(t.body[0], ast.Return) and isinstance(t.body[0].value, ast.Call) and last_attr(t.body[0].value.func) == "_download_http"
        chk.ob("O14.2", "attempt returns the transfer's result", ok, t.body[0], "")
        names = sorted(last_attr(e) for h in t.handlers for e in (h.type.elts if isinstance(h.type, ast.Tuple) else [h.type]))
        chk.ob("O14.2", "retry only for ProtocolError / ReadTimeoutError", names == ["ProtocolError", "ReadTimeoutError"], t, f"{names}")
        h = t.handlers[0]
        iv = L.target.id
        lastif = [n for n in h.body if isinstance(n, ast.If) and u(n.test) in (f"{iv} == HTTP_DOWNLOAD_RETRIES", f"HTTP_DOWNLOAD_RETRIES == {iv}", f"{iv} >= HTTP_DOWNLOAD_RETRIES")]
        ok = bool(lastif) and isinstance(lastif[0].body[0], ast.Raise) and lastif[0].body[0].exc is None and h.body.index(lastif[0]) == 0
        chk.ob("O14.2", "re-raise on the last index (before anything else)", ok, h, "")
        a0 = t.body[0].value.args if isinstance(t.body[0], ast.Return) and isinstance(t.body[0].value, ast.Call) else []
        ok = [u(a) for a in a0[:3]] == params_of(dh)[:3]
        chk.ob("O14.2", "the same url / path / expected size are used on every attempt", ok, t.body[0], "")
    dhh = net.func("_download_http")
    st = [n for n in walk_body(dhh) if isinstance(n, ast.If) and ".status" in u(n.test)]
    if not st:
        raise AnchorMissing("status test in _download_http")
    gd = cfg_of(dhh)
    for status in (200, 204, 299, 300, 304, 399, 400, 404, 500):
        class R:  # noqa
            pass

        try:
            # evaluate the extracted test with r.status := status
            test = st[0].test
            rname = [x.value.id for x in ast.walk(test) if isinstance(x, ast.Attribute) and x.attr == "status" and isinstance(x.value, ast.Name)][0]

            class Sub(ast.NodeTransformer):
                def visit_Attribute(self, n):
                    if n.attr == "status" and isinstance(n.value, ast.Name) and n.value.id == rname:
                        return ast.Constant(value=status)
                    return n

            val = ev(Sub().visit(source.clone(test)), {})
        except (CannotEval, IndexError) as e:
            chk.unknown("O14.2", f"status test cannot be evaluated over the status domain: {e}", st[0])
            break
        want = status > 299
        chk.ob("O14.2", f"HTTP {status} {'raises' if want else 'is accepted'}", bool(val) == want, st[0], f"`{u(test)}` -> {bool(val)}", key=f"{_N}:_download_http:status:{status}")
    ok = raises_on_all_paths(gd, gd.edge_targets(gd.node_of(st[0]), "true")) and any(isinstance(x, ast.Raise) and "HTTPError" in u(x.exc) for x in ast.walk(st[0]))
    chk.ob("O14.2", "a rejected status raises HTTPError before any byte is written", ok and not any(isinstance(x, ast.Call) and last_attr(x.func) == "write" and x.lineno < st[0].lineno for x in walk_body(dhh)), st[0], "")
    rq = [n for n in ast.walk(dhh) if isinstance(n, ast.Call) and last_attr(n.func) == "_request"]
    ecl = arg_of(rq[0], None, "enforce_content_length") if rq else None
    chk.ob("O14.2", "short bodies are detected (enforce_content_length)", ecl is not None and source.is_const(ecl, True), rq[0] if rq else dhh, "")

    # ---- O14.3 verification dominates use -----------------------------------------------------------------------------------------------------------------
    chk.rule("O14.3", "downloader: existence and size tests after the transfer, both raising; HTTP and URL errors converted to data errors (never swallowed); decompressor: existence and size "
             "tests after decompression, both raising; base-url / offline guards raise before any transfer", 9,
             "a short/absent file is taken as the corpus")
    D = ldr.cls("Downloader")
    dd = ldr.methods(D).get("download")
    gdd = cfg_of(dd)
    nd = [n for n in walk_body(dd) if isinstance(n, ast.Call) and dotted(n.func) == "net.download"]
    if not nd:
        raise AnchorMissing("net.download call in Downloader.download")
    ddp = params_of(dd)
    ok = [u(a) for a in nd[0].args[1:3]] == [ddp[2], ddp[3]]
    chk.ob("O14.3", "transfer called with the target path and the declared size", ok, nd[0], short(nd[0], 90))
    tr = source.enclosing(nd[0], ast.Try)
    if tr is not None:
        for h in tr.handlers:
            hn = gdd.by_ast.get(id(h), [])
            ok = bool(hn) and all(gdd.exit.id not in gdd.reachable([x]) for x in hn) and any(isinstance(x, ast.Raise) and x.exc is not None and "DataError" in u(x.exc) for x in ast.walk(h))
            chk.ob("O14.3", f"`except {u(h.type)}` converts to a data error on every path", ok, h, "")
    post = [n for n in dd.body if isinstance(n, ast.If) and n.lineno > nd[0].lineno]
    ex = [n for n in post if u(n.test) in (f"not os.path.isfile({ddp[2]})", f"not os.path.exists({ddp[2]})")]
    ok = bool(ex) and raises_on_all_paths(gdd, gdd.edge_targets(gdd.node_of(ex[0]), "true"))
    chk.ob("O14.3", "downloader: missing file after the transfer raises", ok, ex[0] if ex else dd, "")
    sz = [n for n in post if "!=" in u(n.test) and "size" in u(n.test)]
    ok = bool(sz) and raises_on_all_paths(gdd, gdd.edge_targets(gdd.node_of(sz[0]), "true")) and f"{ddp[3]} is not None" in [u(a) for a in atoms_of(sz[0].test)]
    sdef = local_defs(dd).get("actual_size")
    ok = ok and sdef is not None and u(sdef) == f"os.path.getsize({ddp[2]})"
    chk.ob("O14.3", "downloader: size mismatch after the transfer raises", ok, sz[0] if sz else dd, "")
    pre = [n for n in dd.body if isinstance(n, ast.If) and n.lineno < nd[0].lineno and any(isinstance(x, ast.Raise) for x in n.body)]
    tests = {u(n.test) for n in pre}
    ok = f"not {ddp[1]}" in tests and "self.offline" in tests
    chk.ob("O14.3", "no base URL / offline mode raise before any transfer", ok, pre[0] if pre else dd, f"{sorted(tests)}")
    DC = ldr.cls("Decompressor")
    dc = ldr.methods(DC).get("decompress")
    gdc = cfg_of(dc)
    dcp = params_of(dc)
    idc = [n for n in walk_body(dc) if isinstance(n, ast.Call) and dotted(n.func) == "io.decompress"]
    post = [n for n in dc.body if isinstance(n, ast.If) and idc and n.lineno > idc[0].lineno]
    ex = [n for n in post if u(n.test) == f"not os.path.isfile({dcp[2]})"]
    ok = bool(ex) and raises_on_all_paths(gdc, gdc.edge_targets(gdc.node_of(ex[0]), "true"))
    chk.ob("O14.3", "decompressor: missing document file raises", ok, ex[0] if ex else dc, "")
    sz = [n for n in post if "!=" in u(n.test)]
    ok = bool(sz) and raises_on_all_paths(gdc, gdc.edge_targets(gdc.node_of(sz[0]), "true")) and f"{dcp[3]} is not None" in [u(a) for a in atoms_of(sz[0].test)]
    sdef = local_defs(dc).get("extracted_bytes")
    ok = ok and sdef is not None and u(sdef) == f"os.path.getsize({dcp[2]})"
    chk.ob("O14.3", "decompressor: size mismatch raises", ok, sz[0] if sz else dc, "")
    ok = bool(idc) and u(idc[0].args[0]) == dcp[1]
    chk.ob("O14.3", "decompressor works on the given archive", ok, idc[0] if idc else dc, "")

    # ---- O14.4 state loop ---------------------------------------------------------------------------------------------------------------------------------
    chk.rule("O14.4", "prepare loop exits by break only under present and expected size; the offset-table step follows every normal loop exit (bundled variant: dominates `return True`); a line-count "
             "mismatch removes the table and raises; the optional line count is tested with `is not None` (0 lines is a mismatch)", 8,
             "a wrong-sized / partial / empty document file is accepted; readers use a stale offset table")
    P = ldr.cls("DocumentSetPreparator")
    pm = ldr.methods(P)
    pds = pm.get("prepare_document_set")
    gp = cfg_of(pds)
    wl = [n for n in walk_body(pds) if isinstance(n, ast.While)]
    if not wl:
        raise AnchorMissing("state loop in prepare_document_set")
    WL = wl[0]
    brks = [n for n in ast.walk(WL) if isinstance(n, ast.Break)]
    ok = len(brks) == 1
    if ok:
        gs = guards(brks[0], stop=WL)
        ats = [u(a) for t, pol in gs if pol for a in atoms_of(t)]
        ok = len(gs) == 1 and gs[0][1] and "self.is_locally_available(doc_path)" in ats and any(a.startswith("self.has_expected_size(doc_path, ") and "uncompressed_size_in_bytes" in a for a in ats) and len(ats) == 2 \
            and isinstance(gs[0][0], ast.BoolOp) and isinstance(gs[0][0].op, ast.And)
    chk.ob("O14.4", "loop exits only when the document file is present and has the expected size", ok, brks[0] if brks else WL, "")
    chk.ob("O14.4", "the loop has no other exit (while True, no return)", isinstance(WL.test, ast.Constant) and WL.test.value is True and not any(isinstance(x, ast.Return) for x in ast.walk(WL)), WL, "")
    ot = [n for n in walk_body(pds) if isinstance(n, ast.Call) and last_attr(n.func) == "create_file_offset_table"]
    ok = bool(ot) and WL not in list(source.ancestors(ot[0])) and gp.must_pass(gp.node_of(WL), [gp.node_of(ot[0])], normal_only=True) and u(ot[0].args[0]) == "doc_path" and u(ot[0].args[1]).endswith(".number_of_lines")
    chk.ob("O14.4", "offset table built after the loop on every normal exit", ok, ot[0] if ot else pds, "")
    # what the loop does otherwise: decompress a valid archive, else download to the right target with the right size
    dcs = [n for n in ast.walk(WL) if isinstance(n, ast.Call) and last_attr(n.func) == "decompress"]
    ok = bool(dcs) and [u(a) for a in dcs[0].args[:2]] == ["archive_path", "doc_path"]
    if ok:
        ats = [u(a) for t, pol in guards(dcs[0], stop=WL) if pol for a in atoms_of(t)]
        ok = "self.is_locally_available(archive_path)" in ats and any(a.startswith("self.has_expected_size(archive_path, ") and "compressed_size_in_bytes" in a and "uncompressed" not in a for a in ats)
    chk.ob("O14.4", "an archive is decompressed only if present with its expected (compressed) size", ok, dcs[0] if dcs else WL, "")
    dws = [n for n in ast.walk(WL) if isinstance(n, ast.Call) and last_attr(n.func) == "download" and "downloader" in u(n.func)]
    ok = bool(dws) and [u(a) for a in dws[0].args[1:3]] == ["target_path", "expected_size"]
    if ok:
        pairs = {}
        for n in ast.walk(WL):
            if isinstance(n, ast.Assign) and u(n.targets[0]) in ("target_path", "expected_size"):
                key = tuple((u(t), pol) for t, pol in guards(n, stop=WL))
                pairs.setdefault(key, {})[u(n.targets[0])] = u(n.value)
        good = {("archive_path", True), ("doc_path", False)}
        seen = set()
        for d in pairs.values():
            if "target_path" in d and "expected_size" in d:
                comp = "uncompressed" not in d["expected_size"] and "compressed" in d["expected_size"]
                seen.add((d["target_path"], comp))
        ok = seen == good
    chk.ob("O14.4", "download target and expected size are paired (archive <-> compressed size, document <-> uncompressed size)", ok, dws[0] if dws else WL, "")
    hs = pm.get("has_expected_size")
    r = [n for n in walk_body(hs) if isinstance(n, ast.Return)]
    hp = params_of(hs)
    ok = len(r) == 1 and isinstance(r[0].value, ast.BoolOp) and isinstance(r[0].value.op, ast.Or) and {u(v) for v in r[0].value.values} == {f"{hp[2]} is None", f"os.path.getsize({hp[1]}) == {hp[2]}"}
    chk.ob("O14.4", "has_expected_size: undeclared size or exact match", ok, hs, u(r[0].value) if r else "")
    ila = pm.get("is_locally_available")
    ok = any(isinstance(n, ast.Return) and u(n.value) == f"os.path.isfile({params_of(ila)[1]})" for n in walk_body(ila))
    chk.ob("O14.4", "is_locally_available: a regular file exists", ok, ila, "")
    cf = pm.get("create_file_offset_table")
    gc = cfg_of(cf)
    cdefs = local_defs(cf)
    lr = [k for k, v in cdefs.items() if isinstance(v, ast.Call) and last_attr(v.func) == "prepare_file_offset_table"]
    ifs = [n for n in walk_body(cf) if isinstance(n, ast.If)]
    ok = False
    detail = ""
    if lr and ifs:
        v = lr[0]
        ats = [u(a) for a in atoms_of(ifs[0].test)]
        detail = f"`{u(ifs[0].test)}`"
        none_ok = f"{v} is not None" in ats
        truthy = v in ats
        ok = none_ok and not truthy and f"{v} != {params_of(cf)[2]}" in ats and raises_on_all_paths(gc, gc.edge_targets(gc.node_of(ifs[0]), "true")) \
            and any(isinstance(x, ast.Call) and last_attr(x.func) == "remove_file_offset_table" for s in ifs[0].body for x in ast.walk(s))
        if truthy:
            detail += " tests the optional line count by truthiness: a file with 0 lines skips the comparison"
    chk.ob("O14.4", "line-count mismatch (including 0 lines) removes the table and raises", ok, ifs[0] if ifs else cf, detail, key=f"{_L}:DocumentSetPreparator.create_file_offset_table:line-count-check")
    pb = pm.get("prepare_bundled_document_set")
    gb = cfg_of(pb)
    rt = [n for n in walk_body(pb) if isinstance(n, ast.Return) and source.is_const(n.value, True)]
    otb = [n for n in walk_body(pb) if isinstance(n, ast.Call) and last_attr(n.func) == "create_file_offset_table"]
    ok = bool(rt) and bool(otb) and all(gb.dominated_by_nodes(gb.node_of(r_), [gb.node_of(o) for o in otb]) for r_ in rt)
    if ok:
        ats = [u(t) for r_ in rt for t, pol in guards(r_) if pol]
        ok = any("is_locally_available(doc_path)" in a for a in ats) and any("has_expected_size(doc_path" in a for a in ats)
    chk.ob("O14.4", "bundled: `return True` only for a present, right-sized file, after the offset table was built", ok, rt[0] if rt else pb, "")

    # ---- O14.5 format dispatch -------------------------------------------------------------------------------------------------------------------------------
    chk.rule("O14.5", "every extension of the supported-archive table has a branch in decompress(); multi-dot extensions are special-cased in splitext(); unknown extensions raise; the library "
             "fallback follows a failed (or unavailable) external decompressor on every path", 11,
             "a supported archive type is rejected / silently not decompressed; a corrupt archive or crashing tool yields an empty document file without error")
    tbl = io_.module_constant("SUPPORTED_ARCHIVE_FORMATS")
    if not isinstance(tbl, (ast.List, ast.Tuple, ast.Set)):
        raise AnchorMissing("SUPPORTED_ARCHIVE_FORMATS table")
    exts = [e.value for e in tbl.elts if isinstance(e, ast.Constant)]
    dec = io_.func("decompress")
    handled = set()
    for n in walk_body(dec):
        if isinstance(n, ast.If):
            c = comparison(n.test)
            if c and u(c[0]) == "extension":
                if c[1] == "==" and isinstance(c[2], ast.Constant):
                    handled.add(c[2].value)
                elif c[1] == "in" and isinstance(c[2], (ast.List, ast.Tuple, ast.Set)):
                    handled |= {e.value for e in c[2].elts if isinstance(e, ast.Constant)}
    for e in exts:
        chk.ob("O14.5", f"extension {e} has a branch in decompress()", e in handled, dec, "", key=f"{_I}:decompress:ext:{e}")
    se = io_.func("splitext")
    special = {c.args[0].value for c in source.calls_in(se, attr="endswith") if c.args and isinstance(c.args[0], ast.Constant)}
    multi = [e for e in exts if e.count(".") > 1]
    for e in multi:
        chk.ob("O14.5", f"multi-dot extension {e} special-cased in splitext()", e in special, se, "", key=f"{_I}:splitext:{e}")
    for n in walk_body(se):
        if isinstance(n, ast.Return) and isinstance(n.value, ast.Tuple) and guards(n) and guards(n)[-1][1]:
            t = guards(n)[-1][0]
            if isinstance(t, ast.Call) and last_attr(t.func) == "endswith":
                k = len(t.args[0].value)
                ok = u(n.value.elts[0]).endswith(f"[0:-{k}]") and u(n.value.elts[1]).endswith(f"[-{k}:]")
                chk.ob("O14.5", f"splitext cuts {t.args[0].value} at its own length", ok, n, u(n.value))
    gdec = cfg_of(dec)
    last = dec.body[-1]
    while isinstance(last, ast.If) and last.orelse:
        if len(last.orelse) == 1 and isinstance(last.orelse[0], ast.If):
            last = last.orelse[0]
        else:
            break
    ok = isinstance(last, ast.If) and last.orelse and isinstance(last.orelse[-1], ast.Raise)
    chk.ob("O14.5", "unknown extension raises", bool(ok), dec, "")
    dm = io_.func("_do_decompress_manually")
    gm = cfg_of(dm)
    lib = [gm.node_of(n) for n in walk_body(dm) if isinstance(n, ast.Call) and last_attr(n.func) == "_do_decompress_manually_with_lib"]
    okret = [gm.node_of(n) for n in walk_body(dm) if isinstance(n, ast.Return) and any(pol and isinstance(t, ast.Call) and last_attr(t.func) == "_do_decompress_manually_external" for t, pol in guards(n))]
    ok = bool(lib) and gm.must_pass(gm.entry, lib + okret, normal_only=True)
    path = None
    if not ok:
        p = gm.find_path(gm.entry, gm.exit, avoid=lib + okret, edge_ok=gm.normal_edge)
        path = gm.describe_path(p) if p else None
    chk.ob("O14.5", "library fallback (or a successful external run) on every path", ok, dm, "" if ok else "a path ends without having decompressed anything: " + " ".join(path or []), path=path)
    dme = io_.func("_do_decompress_manually_external")
    rets = [n for n in walk_body(dme) if isinstance(n, ast.Return)]
    ok = any(source.is_const(r.value, False) and isinstance(source.enclosing(r, ast.ExceptHandler), ast.ExceptHandler) for r in rets) and any(source.is_const(r.value, True) for r in rets)
    chk.ob("O14.5", "external decompressor reports failure as False", ok, dme, "")
    runc = [n for n in walk_body(dme) if isinstance(n, ast.Call) and dotted(n.func) == "subprocess.run"]
    ck = arg_of(runc[0], None, "check") if runc else None
    chk.ob("O14.5", "external decompressor failures are detected (check=True)", ck is not None and source.is_const(ck, True), runc[0] if runc else dme, "")

    # ---- O14.6 offset table protocol ---------------------------------------------------------------------------------------------------------------------------------
    offset_table_protocol(chk, io_, "O14.6")

    # ---- O14.7 advisory ---------------------------------------------------------------------------------------------------------------------------------------------
    cf_ = io_.methods(io_.cls("FileOffsetTable")).get("create_for_data_file")
    if cf_ is not None and not any(isinstance(n, ast.Call) and dotted(n.func) in ("os.rename", "os.replace") for n in ast.walk(io_.cls("FileOffsetTable"))):
        chk.adv("O14.7", "the offset table (whose mtime later means 'valid') is written under its final name, not via temp + rename; an interrupted build leaves a shorter but well-formed table "
                "(no failing history could be produced: a shorter table still positions readers correctly)", cf_)


from sa.selftest import V  # noqa: E402

VARIANTS = [
    V("F14: truthiness on the line count", "break", _L, "        if lines_read is not None and lines_read != expected_number_of_lines:", "        if lines_read and lines_read != expected_number_of_lines:", "O14.4"),
    V("write to the final path", "break", _N, "            expected_size_in_bytes = download_http(url, tmp_data_set_path, expected_size_in_bytes, progress_indicator)", "            expected_size_in_bytes = download_http(url, local_path, expected_size_in_bytes, progress_indicator)", "O14.1"),
    V("rename before the size check", "break", _N, "    download_size = os.path.getsize(tmp_data_set_path)\n    if expected_size_in_bytes", "    os.rename(tmp_data_set_path, local_path)\n    download_size = os.path.getsize(local_path)\n    if expected_size_in_bytes", "O14.1"),
    V("handler does not remove tmp", "break", _N, "    except BaseException:\n        if os.path.isfile(tmp_data_set_path):\n            os.remove(tmp_data_set_path)\n        raise", "    except BaseException:\n        raise", "O14.1"),
    V("range(N)", "break", _N, "    for i in range(HTTP_DOWNLOAD_RETRIES + 1):", "    for i in range(HTTP_DOWNLOAD_RETRIES):", "O14.2"),
    V("seed m2: only 4xx/5xx rejected", "break", _N, "        if r.status > 299:", "        if r.status >= 400:", "O14.2"),
    V("retry on any exception", "break", _N, "        except (urllib3.exceptions.ProtocolError, urllib3.exceptions.ReadTimeoutError) as exc:", "        except Exception as exc:", "O14.2"),
    V("post-download size test dropped", "break", _L, "        if size_in_bytes is not None and actual_size != size_in_bytes:\n            raise exceptions.DataError(\n                f\"[{target_path}] is corrupt. Downloaded", "        if False:\n            raise exceptions.DataError(\n                f\"[{target_path}] is corrupt. Downloaded", "O14.3"),
    V("URL error swallowed", "break", _L, "        except urllib.error.URLError as e:\n            raise exceptions.DataError(f\"Could not download [{data_url}] to [{target_path}].\") from e", "        except urllib.error.URLError as e:\n            self.logger.warning(\"Could not download [%s]\", data_url)", "O14.3"),
    V("break on presence only", "break", _L, "            if self.is_locally_available(doc_path) and self.has_expected_size(doc_path, document_set.uncompressed_size_in_bytes):\n                break", "            if self.is_locally_available(doc_path):\n                break", "O14.4"),
    V("offset table only on one branch", "break", _L, "                    raise\n\n        self.create_file_offset_table(doc_path, document_set.number_of_lines)", "                    raise\n\n        if archive_path:\n            self.create_file_offset_table(doc_path, document_set.number_of_lines)", "O14.4"),
    V("new extension in the table without a branch", "break", _I, "SUPPORTED_ARCHIVE_FORMATS = [\".zip\", \".bz2\", \".gz\", \".tar\", \".tar.gz\", \".tgz\", \".tar.bz2\", \".zst\"]", "SUPPORTED_ARCHIVE_FORMATS = [\".zip\", \".bz2\", \".gz\", \".tar\", \".tar.gz\", \".tgz\", \".tar.bz2\", \".zst\", \".xz\"]", "O14.5"),
    V("seed m3: library fallback only when the tool is missing", "break", _I, "            \"%s not found in PATH. Using standard library, decompression will take longer.\", decompressor_bin\n        )\n\n    _do_decompress_manually_with_lib(target_directory, filename, decompressor_lib(filename))",
      "            \"%s not found in PATH. Using standard library, decompression will take longer.\", decompressor_bin\n        )\n        _do_decompress_manually_with_lib(target_directory, filename, decompressor_lib(filename))", "O14.5"),
    V("seed m1: character offsets instead of tell()", "break", _I, "                        file_offset_table.add_offset(line_number, data_file.tell())", "                        file_offset_table.add_offset(line_number, line_number * len(line))", "O14.6"),
    V("offset recorded before the increment", "break", _I, "                    line_number += 1\n                    if line_number % 50000 == 0:\n                        file_offset_table.add_offset(line_number, data_file.tell())", "                    if line_number % 50000 == 0:\n                        file_offset_table.add_offset(line_number, data_file.tell())\n                    line_number += 1", "O14.6"),
    V("reader uses <", "break", _I, "            if line_number <= target_line_number:", "            if line_number < target_line_number:", "O14.6"),
    V("writer swaps the fields", "break", _I, "        print(f\"{line_number};{offset}\", file=self.offset_file)", "        print(f\"{offset};{line_number}\", file=self.offset_file)", "O14.6"),
    # preserving
    V("os.replace", "keep", _N, "    os.rename(tmp_data_set_path, local_path)", "    os.replace(tmp_data_set_path, local_path)"),
    V(">= 300", "keep", _N, "        if r.status > 299:", "        if r.status >= 300:"),
    V("not line", "keep", _I, "                    if len(line) == 0:\n                        break\n                    line_number += 1", "                    if not line:\n                        break\n                    line_number += 1"),
]
