"""C14 — corpus preparation ends with complete, verified data or an explicit error (DESIGN.md section 4, C14)."""
from __future__ import annotations

import ast
import itertools

from sa import pat, source, tables
from sa.cfg import cfg_of, conjuncts, guards, facts, holds, negate
from sa.classes import is_logging_stmt
from sa.minieval import CannotEval, Record, ev
from sa.source import AnchorMissing, arg_of, dotted, is_self_attr, last_attr, local_defs, params_of, short, u, walk_body
from sa.sym import UnknownAtom, atoms_of, bool_eval, oriented

_N = "esrally/utils/net.py"
_I = "esrally/utils/io.py"
_L = "esrally/track/loader.py"


def raises_on_all_paths(g, starts):
    return bool(starts) and all(g.exit.id not in g.reachable([s]) for s in starts)


def method(mod, cls, name):
    """the method `name` of class `cls` (AnchorMissing, not AttributeError, when it is gone)."""
    m = mod.methods(cls).get(name)
    if m is None:
        raise AnchorMissing(f"{mod.relpath}: method {cls.name}.{name} not found")
    return m


def params(f, n):
    """positional parameter names of f; AnchorMissing unless there are at least n."""
    ps = params_of(f)
    if len(ps) < n:
        raise AnchorMissing(f"{getattr(f, 'name', '?')}: expected at least {n} positional parameters, found {ps}")
    return ps


def eval_with(test, vals):
    """value of the extracted expression `test` when every sub-expression whose text is a key of `vals` has the given representative value (minieval; raises CannotEval for anything else)."""

    class S(ast.NodeTransformer):
        def visit(self, n):
            if isinstance(n, ast.expr) and not isinstance(getattr(n, "ctx", None), ast.Store) and u(n) in vals:
                return ast.Constant(value=vals[u(n)])
            return self.generic_visit(n)

    return ev(S().visit(source.clone(test)), {})


class CountedLines(list):
    """a list standing for an open text file that is iterated line by line; `taken` = how many lines the last iteration consumed (a loop that stops early leaves the rest unread)."""

    taken = 0

    def __iter__(self):
        self.taken = 0
        for x in list.__iter__(self):
            self.taken += 1
            yield x


class SimRaise(Exception):
    """an exception of class `cls` (dotted name as written, or the name the rule chose for a simulated callee's failure) raised INSIDE interpreted code (exec_small, exception mode)."""

    def __init__(self, cls, node=None):
        Exception.__init__(self, cls)
        self.cls, self.node = cls, node


def stored_names(nodes):
    return {x.id for s_ in nodes for x in ast.walk(s_) if isinstance(x, ast.Name) and isinstance(x.ctx, (ast.Store, ast.Del))}


def exec_small(stmts, env, lenient=False, until=None, steps=None, evalf=None):
    """Interpretation of a small statement list on the representative values of `env` (name -> value, updated in place): every expression is evaluated by minieval, assignments (names,
    tuple unpacking, augmented), if / for / while / break / continue / return / raise are followed; asserts, docstrings, logging and `pass` are skipped. Nothing of the repository runs.
    -> (kind, value, node) with kind in fallthrough | return | raise | break | continue | until (the statement `until` was reached; it is not executed).
    exception mode (env["__catches__"] = f(handler, SimRaise) -> bool): try / except / else / finally are followed with Python's semantics for the SimRaise exceptions the caller's
    evaluator raises for the calls it plays and for the raise statements of the interpreted code; call statements are handed to the evaluator; an exception that no handler takes leaves
    exec_small as a SimRaise.
    strict (default): anything beyond that raises CannotEval. lenient: a statement that cannot be evaluated makes every name it stores to unknown (removed from env) and the walk goes
    on — used to learn which locals have a KNOWN value when `until` is reached (e.g. a parameter whose default None is resolved to a constant at call time); an `if` around `until` whose
    test cannot be evaluated is entered on the side that leads to it.
    generator mode (env["__yields__"] is a Yields list): `yield E` / `yield from E` statements emit the evaluated value — the object itself, no copy —, stores through a subscript and call
    statements (container methods, applied by the evaluator) act on the shared objects, so aliasing between what was yielded earlier and what is changed later is observed."""
    steps = steps if steps is not None else [0]
    ev_ = evalf or ev  # the expression evaluator (minieval; ev_str where path-splitting code is interpreted)

    def holds_(s_):
        return until is not None and s_ is not until and any(x is until for x in ast.walk(s_))

    def bind(t, v, at):
        if isinstance(t, ast.Name):
            env[t.id] = v
        elif isinstance(t, (ast.Tuple, ast.List)) and all(isinstance(e_, ast.Name) for e_ in t.elts):
            if not isinstance(v, (list, tuple)) or len(v) != len(t.elts):
                raise CannotEval(f"line {getattr(at, 'lineno', '?')}: {v!r} cannot be unpacked into {len(t.elts)} names: ValueError")
            for e_, x in zip(t.elts, v):
                env[e_.id] = x
        elif isinstance(t, ast.Subscript) and "__yields__" in env:  # generator mode: containers are real (shared) objects, a store through a subscript is seen by every holder
            c_ = ev_(t.value, env)
            if not isinstance(c_, (dict, list)):
                raise CannotEval(f"store to `{u(t)[:40]}`")
            try:
                c_[ev_(t.slice, env)] = v
            except (IndexError, KeyError, TypeError) as x:
                raise CannotEval(f"store to `{u(t)[:40]}`: {type(x).__name__}")
        else:
            raise CannotEval(f"store to `{u(t)[:40]}`")

    def loop(s_, items):
        """runs the body once per item (None = a while loop: as long as its test holds); -> the outcome that leaves the enclosing block, or None."""
        broke = False
        it = iter(items) if items is not None else None
        while True:
            steps[0] += 1
            if steps[0] > 4000:
                raise CannotEval("too many steps")
            if it is None:
                if not ev_(s_.test, env):
                    break
            else:
                try:
                    v = next(it)
                except StopIteration:
                    break
                bind(s_.target, v, s_)
            r = exec_small(s_.body, env, lenient, None, steps, evalf)
            if r[0] == "break":
                broke = True
                break
            if r[0] in ("return", "raise"):
                return r
        if not broke and s_.orelse:
            r = exec_small(s_.orelse, env, lenient, None, steps, evalf)
            if r[0] != "fallthrough":
                return r
        return None

    def as_sim(r, active=None):
        """the SimRaise a `raise` outcome stands for: a bare `raise` / `raise <handler name>` re-raises the exception being handled, `raise C(...)` / `raise C` raises class C."""
        x = r[1]
        if x is None:
            if active is None:
                raise CannotEval(f"line {getattr(r[2], 'lineno', '?')}: bare `raise` outside a handler")
            return active
        if isinstance(x, ast.Name) and isinstance(env.get(x.id), SimRaise):
            return env[x.id]
        d_ = dotted(x.func) if isinstance(x, ast.Call) else dotted(x)
        if not d_:
            raise CannotEval(f"line {getattr(r[2], 'lineno', '?')}: the class of `{u(x)[:40]}` cannot be told")
        return SimRaise(d_, r[2])

    def run_try(s_):
        """exception mode (env["__catches__"] = f(handler, SimRaise) -> bool): try / except / else / finally with Python's semantics for the exceptions the evaluator raises for the
        calls it plays (SimRaise) and for the raise statements of the interpreted code; an exception no handler takes leaves exec_small as a SimRaise."""
        pending, r = None, ("fallthrough", None, None)
        try:
            r = exec_small(s_.body, env, lenient, None, steps, evalf)
            if r[0] == "raise":
                raise as_sim(r, env.get("__active__"))
            if r[0] == "fallthrough" and s_.orelse:
                try:
                    r = exec_small(s_.orelse, env, lenient, None, steps, evalf)
                    if r[0] == "raise":
                        pending, r = as_sim(r, env.get("__active__")), ("fallthrough", None, None)
                except SimRaise as y:
                    pending, r = y, ("fallthrough", None, None)
        except SimRaise as x:
            r = ("fallthrough", None, None)
            if pending is None:
                h = next((h_ for h_ in s_.handlers if env["__catches__"](h_, x)), None)
                if h is None:
                    pending = x
                else:
                    if h.name:
                        env[h.name] = x
                    outer = env.get("__active__")
                    env["__active__"] = x
                    try:
                        r = exec_small(h.body, env, lenient, None, steps, evalf)
                        if r[0] == "raise":
                            pending, r = as_sim(r, x), ("fallthrough", None, None)
                    except SimRaise as y:
                        pending = y
                    finally:
                        env["__active__"] = outer
                        if h.name:
                            env.pop(h.name, None)
        if s_.finalbody:
            f_ = exec_small(s_.finalbody, env, lenient, None, steps, evalf)
            if f_[0] == "raise":
                raise as_sim(f_, pending)
            if f_[0] != "fallthrough":
                return f_
        if pending is not None:
            raise pending
        return r

    for s in stmts:
        steps[0] += 1
        if steps[0] > 4000:
            raise CannotEval("too many steps")
        if s is until:
            return "until", None, s
        if holds_(s):
            if isinstance(s, ast.If):
                in_body = any(x is until for b_ in s.body for x in ast.walk(b_))
                try:
                    t = bool(ev_(s.test, env))
                except CannotEval:
                    if not lenient:
                        raise
                    for nm in stored_names([s.test]):
                        env.pop(nm, None)
                    t = in_body
                if t != in_body:
                    raise CannotEval(f"line {until.lineno} is not reached for these values (`{u(s.test)[:50]}` is {t})")
                return exec_small(s.body if t else s.orelse, env, lenient, until, steps, evalf)
            if isinstance(s, (ast.With, ast.AsyncWith, ast.Try)):
                if not any(x is until for b_ in s.body for x in ast.walk(b_)):
                    raise CannotEval(f"line {until.lineno} lies in a handler / else / finally arm")
                for nm in stored_names([it.optional_vars for it in getattr(s, "items", []) if it.optional_vars is not None]):
                    env.pop(nm, None)
                return exec_small(s.body, env, lenient, until, steps, evalf)
            raise CannotEval(f"line {until.lineno} is nested in a {type(s).__name__} statement")
        try:
            if isinstance(s, ast.Assign):
                v = ev_(s.value, env)
                for t in s.targets:
                    bind(t, v, s)
            elif isinstance(s, ast.AnnAssign):
                if s.value is not None:
                    bind(s.target, ev_(s.value, env), s)
            elif isinstance(s, ast.AugAssign):
                if not isinstance(s.target, ast.Name):
                    raise CannotEval(f"store to `{u(s.target)[:40]}`")
                env[s.target.id] = ev_(ast.BinOp(left=ast.Name(id=s.target.id, ctx=ast.Load()), op=s.op, right=s.value), env)
            elif isinstance(s, ast.If):
                r = exec_small(s.body if ev_(s.test, env) else s.orelse, env, lenient, None, steps, evalf)
                if r[0] != "fallthrough":
                    return r
            elif isinstance(s, ast.For):
                items = ev_(s.iter, env)
                if not isinstance(items, (list, tuple, range, str, set, frozenset, dict)):
                    raise CannotEval(f"iteration over `{u(s.iter)[:40]}`")
                r = loop(s, items)
                if r is not None:
                    return r
            elif isinstance(s, ast.While):
                r = loop(s, None)
                if r is not None:
                    return r
            elif isinstance(s, ast.Return):
                return "return", (None if s.value is None else ev_(s.value, env)), s
            elif isinstance(s, ast.Raise):
                return "raise", s.exc, s
            elif isinstance(s, ast.Break):
                return "break", None, s
            elif isinstance(s, ast.Continue):
                return "continue", None, s
            elif isinstance(s, (ast.Pass, ast.Assert, ast.Import, ast.ImportFrom, ast.Global, ast.Nonlocal)) or is_logging_stmt(s) or (isinstance(s, ast.Expr) and isinstance(s.value, ast.Constant)):
                pass
            elif "__yields__" in env and isinstance(s, ast.Expr) and isinstance(s.value, ast.Yield):
                env["__yields__"].emit(None if s.value.value is None else ev_(s.value.value, env))
            elif "__yields__" in env and isinstance(s, ast.Expr) and isinstance(s.value, ast.YieldFrom):
                items = ev_(s.value.value, env)
                if not isinstance(items, (list, tuple)):
                    raise CannotEval(f"yield from `{u(s.value.value)[:40]}`")
                for x_ in items:
                    env["__yields__"].emit(x_)
            elif "__yields__" in env and isinstance(s, ast.Expr) and isinstance(s.value, ast.Call):
                ev_(s.value, env)  # a call statement: the evaluator applies the mutating container methods (update / append / ...) to the shared object
            elif "__catches__" in env and isinstance(s, ast.Expr) and isinstance(s.value, ast.Call):
                ev_(s.value, env)  # exception mode: the caller's evaluator answers the calls it plays (the simulated callee, the pause) and refuses (CannotEval) the others
            elif "__catches__" in env and isinstance(s, ast.Try):
                r = run_try(s)
                if r[0] != "fallthrough":
                    return r
            elif lenient and isinstance(s, (ast.With, ast.AsyncWith)):
                for nm in stored_names([it.optional_vars for it in s.items if it.optional_vars is not None]):
                    env.pop(nm, None)
                r = exec_small(s.body, env, lenient, None, steps, evalf)
                if r[0] != "fallthrough":
                    return r
            else:
                raise CannotEval(f"statement `{short(s, 50)}` at line {getattr(s, 'lineno', '?')}")
        except CannotEval:
            if not lenient:
                raise
            # unknown effect: whatever the statement may store to is unknown from here on (a receiver of a method call statement — `xs.append(...)` — included)
            for nm in stored_names([s]):
                env.pop(nm, None)
            if isinstance(s, ast.Expr) and isinstance(s.value, ast.Call) and isinstance(s.value.func, ast.Attribute) and isinstance(s.value.func.value, ast.Name):
                env.pop(s.value.func.value.id, None)
    return "fallthrough", None, None


def compared_with(test, name):
    """role 'the measured value': the operand compared (==, !=, <, >, <=, >=; either orientation) with the name `name` inside `test`; None unless there is exactly one such operand."""
    out = {}
    for x in ast.walk(test):
        if isinstance(x, ast.Compare) and len(x.ops) == 1 and isinstance(x.ops[0], (ast.Eq, ast.NotEq, ast.Lt, ast.Gt, ast.LtE, ast.GtE)):
            l, r = x.left, x.comparators[0]
            if u(l) == name and u(r) != name:
                out[u(r)] = r
            elif u(r) == name and u(l) != name:
                out[u(l)] = l
    return list(out.values())[0] if len(out) == 1 else None


# (declared / expected value, measured value, is a mismatch): an undeclared (None) expectation is never a mismatch, a declared one — 0 included — is one iff the values differ (either direction)
_MISMATCH = [(None, 7, False), (None, 0, False), (7, 7, False), (0, 0, False), (7, 6, True), (6, 7, True), (0, 6, True), (6, 0, True)]


def mismatch_table(test, optional, other, pol=True):
    """(ok, detail): the expression `test` (its negation when pol is False) is true exactly for the mismatch cases of _MISMATCH, evaluated on those representative values."""
    wrong = []
    for e, m, want in _MISMATCH:
        try:
            got = bool(eval_with(test, {optional: e, other: m}))
        except CannotEval as x:
            return False, f"cannot evaluate `{u(test)}`: {x}"
        if got != (want if pol else not want):
            wrong.append(f"{optional}={e!r} vs {m!r}: {'treated as a mismatch' if got == pol else 'accepted'}")
    return not wrong, "; ".join(wrong)


_JUMPS = (ast.Raise, ast.Return, ast.Break, ast.Continue)


def outcome(stmt, vals):
    """How the compound statement `stmt` (an `if`; nested ifs, either arm order, split conjunctions all allowed) ends when the sub-expressions named in `vals` have the given representative
    values: tables.decide with every test that matters evaluated by minieval; statements without a raise / return / break / continue inside cannot change the outcome and are skipped.
    CannotEval when the shape or a test is beyond the evaluator (the caller then does not discharge the obligation)."""

    def atom(n, env):
        return bool(eval_with(n, vals))

    def on_stmt(s_, env, b):
        return None if any(isinstance(x, _JUMPS) for x in ast.walk(s_)) else "skip"

    try:
        return tables.decide([stmt], atom, {}, on_stmt=on_stmt)
    except (tables.Unsupported, UnknownAtom) as e:
        raise CannotEval(str(e))


def mismatch_outcomes(stmt, optional, other):
    """(ok, detail, results): `stmt` ends in a raise exactly for the mismatch cases of _MISMATCH (`optional` = the value that may be None = nothing to compare with, `other` = the value it
    is compared with). results maps (optional value, other value) -> tables.Outcome."""
    wrong, res = [], {}
    for e, m, want in _MISMATCH:
        try:
            res[(e, m)] = o = outcome(stmt, {optional: e, other: m})
        except CannotEval as x:
            return False, f"cannot evaluate the test(s) at line {getattr(stmt, 'lineno', '?')}: {x}", {}
        if (o.kind == "raise") != want:
            wrong.append(f"{optional}={e!r} vs {m!r}: {'raises' if o.kind == 'raise' else 'accepted'}")
    return not wrong, "; ".join(wrong), res


def comparing_if(ifs, name):
    """(outermost if, operand compared with `name`): the first `if` of `ifs` that — in its own test or in the test of an if nested in it — compares the name `name` with another value."""
    for n in ifs:
        for x in source.walk_explicit(n):
            if isinstance(x, ast.If):
                m = compared_with(x.test, name)
                if m is not None:
                    return n, m
    return None, None


def block_of(stmt):
    """the statement list that contains stmt."""
    p_ = source.parent(stmt)
    for f_ in ("body", "orelse", "finalbody"):
        b = getattr(p_, f_, None)
        if isinstance(b, list) and any(x is stmt for x in b):
            return b
    return [stmt]


def before_in_block(stmt):
    b = block_of(stmt)
    return b[: [i for i, x in enumerate(b) if x is stmt][0]]


def returned(r):
    """the expression a `return` yields, looking through a temporary bound by the statement just before it (`tmp = E; return tmp`)."""
    v = r.value
    prev = before_in_block(r)
    if isinstance(v, ast.Name) and prev and isinstance(prev[-1], ast.Assign) and len(prev[-1].targets) == 1 and isinstance(prev[-1].targets[0], ast.Name) and prev[-1].targets[0].id == v.id:
        return prev[-1].value
    return v


def same_value(a, b, defs):
    """two expressions denote the same value once single-assignment locals are inlined."""
    return a is not None and b is not None and source.inline(a, defs) == source.inline(b, defs)


def expr(text):
    return ast.parse(text, mode="eval").body


_LINES = ("", "\n", "x\n", "x", " \n")  # what readline() can return: "" only at end of file — a blank line is "\n", the last line may lack its newline


class LineScan:
    """role 'how the writer walks the data file', located from the loop that holds the add_offset call (F = the file object):
      body  while ...:  `<L> = F.readline()` is a statement of the loop, the end-of-file test follows in the body
      test  while <test over F.readline()>:                       (`while F.readline():`, `while (L := F.readline()):`, `while len(F.readline()) > 0:`)
      iter  for <T> in [enumerate(] iter(F.readline, <sentinel>) [, <start>)]:
      file  for <T> in [enumerate(] F [)]:                        — the file object itself is iterated, readline() is not used
    reads = every readline() performed per iteration; index / start = the enumerate position variable and its first value."""

    def __init__(self, kind, fobj, read, reads, line=None, index=None, start=None, sentinel=None):
        self.kind, self.fobj, self.read, self.reads, self.line, self.index, self.start, self.sentinel = kind, fobj, read, reads, line, index, start, sentinel


def opened_files(fn):
    """{local: open(...) call}: the names bound to a file object in fn (`with open(...) as F`, `F = open(...)`)."""
    out = {}
    for n in walk_body(fn):
        if isinstance(n, (ast.With, ast.AsyncWith)):
            for it in n.items:
                if isinstance(it.context_expr, ast.Call) and dotted(it.context_expr.func) in ("open", "io.open") and isinstance(it.optional_vars, ast.Name):
                    out[it.optional_vars.id] = it.context_expr
        elif isinstance(n, ast.Assign) and len(n.targets) == 1 and isinstance(n.targets[0], ast.Name) and isinstance(n.value, ast.Call) and dotted(n.value.func) in ("open", "io.open"):
            out[n.targets[0].id] = n.value
    return out


def line_scan(fn, loop):
    """LineScan of `loop`, or None when it reads in none of the recognised ways."""
    own = lambda n: source.enclosing(n, (ast.While, ast.For)) is loop  # noqa: E731
    reads = [n for n in ast.walk(loop) if isinstance(n, ast.Call) and isinstance(n.func, ast.Attribute) and n.func.attr == "readline" and not n.args and not n.keywords and own(n)]
    if isinstance(loop, ast.For):
        it, index, start, line = loop.iter, None, None, loop.target.id if isinstance(loop.target, ast.Name) else None
        if isinstance(it, ast.Call) and dotted(it.func) == "enumerate" and it.args:
            if not (isinstance(loop.target, ast.Tuple) and len(loop.target.elts) == 2 and all(isinstance(t, ast.Name) for t in loop.target.elts)):
                return None
            index, line = loop.target.elts[0].id, loop.target.elts[1].id
            start = arg_of(it, 1, "start") or ast.Constant(value=0)
            it = it.args[0]
        if isinstance(it, ast.Call) and dotted(it.func) == "iter" and len(it.args) == 2 and not it.keywords and isinstance(it.args[0], ast.Attribute) and it.args[0].attr == "readline":
            return LineScan("iter", u(it.args[0].value), it, [it] + reads, line, index, start, it.args[1])
        if isinstance(it, ast.Name) and it.id in opened_files(fn) and not reads:
            return LineScan("file", it.id, it, [], line, index, start)
        return None
    in_test = [n for n in reads if any(n is x for x in ast.walk(loop.test))]
    if in_test:
        tgt = [x.target.id for x in ast.walk(loop.test) if isinstance(x, ast.NamedExpr) and x.value is in_test[0]]
        return LineScan("test", u(in_test[0].func.value), in_test[0], reads, tgt[0] if tgt else None)
    if reads:
        r = reads[0]
        st = source.enclosing_stmt(r)
        line = st.targets[0].id if isinstance(st, ast.Assign) and st.value is r and len(st.targets) == 1 and isinstance(st.targets[0], ast.Name) else None
        tgt = [x.target.id for x in ast.walk(st) if isinstance(x, ast.NamedExpr) and x.value is r]
        return LineScan("body", u(r.func.value), r, reads, line or (tgt[0] if tgt else None))
    return None


def scan_step(loop, sc, cnt, value):
    """One iteration of the scanning loop for the case 'the read returned `value`', evaluated on the extracted tests (tables.decide / minieval; nothing runs):
    (scan ends, the counter `cnt` was advanced before that). CannotEval when a test that matters is beyond the evaluator."""
    vals = {u(sc.read): value}
    if sc.line:
        vals[sc.line] = value
    if sc.kind == "test":
        if not bool(eval_with(loop.test, vals)):
            return True, False
    elif not (isinstance(loop.test, ast.Constant) and loop.test.value is True):
        raise CannotEval(f"loop condition `{u(loop.test)[:60]}` besides the read in the body")

    def is_inc(s_):
        return isinstance(s_, ast.AugAssign) and u(s_.target) == cnt

    def atom(n, env):
        return bool(eval_with(n, vals))

    def on_stmt(s_, env, b):
        if is_inc(s_) or (isinstance(s_, ast.Assign) and any(x is sc.read for x in ast.walk(s_))):
            return None
        return None if any(isinstance(x, _JUMPS) for x in ast.walk(s_)) else "skip"

    try:
        o = tables.decide(loop.body, atom, {}, on_stmt=on_stmt)
    except (tables.Unsupported, UnknownAtom) as e:
        raise CannotEval(str(e))
    return o.kind in ("break", "return"), any(is_inc(e) for e in o.effects)


def offset_table_writer(chk, rid, io_mod, pf):
    """the writer half of O14.6 / O3.7: (scanning loop or None, return statements of prepare_file_offset_table). Every role is located by data flow from the add_offset call; a role
    that cannot be located is reported as not recognised (chk.unknown), never as a falsified obligation."""
    g = cfg_of(pf)
    rets = [n for n in walk_body(pf) if isinstance(n, ast.Return)]
    FT = io_mod.cls("FileOffsetTable")
    ao = method(io_mod, FT, "add_offset")
    aop = params(ao, 3)
    add = [n for n in walk_body(pf) if isinstance(n, ast.Call) and last_attr(n.func) == "add_offset"]
    if not add:
        raise AnchorMissing("add_offset call in prepare_file_offset_table")
    a = add[0]
    loop = source.enclosing(a, (ast.While, ast.For))
    tbl = u(a.func.value) if isinstance(a.func, ast.Attribute) else None
    if loop is None or source.enclosing_func(loop) is not pf:
        chk.unknown(rid, "prepare_file_offset_table: the add_offset call is not inside a loop of this function (the scan cannot be followed)", a)
        return None, rets, None
    sc = line_scan(pf, loop)
    if sc is None:
        chk.unknown(rid, "prepare_file_offset_table: the loop around add_offset reads the data file in none of the recognised ways (readline() as a statement of the loop / in the while "
                         "test / iter(F.readline, sentinel))", loop)
        return loop, rets, tbl
    # role: the line counter = the local passed as add_offset's line-number parameter; the recorded offset = the argument bound to its offset parameter
    b = source.bind_args(a, ao)
    carg, oarg = b.get(aop[1]), b.get(aop[2])
    is_tell = lambda e: isinstance(e, ast.Call) and isinstance(e.func, ast.Attribute) and e.func.attr == "tell" and not e.args  # noqa: E731
    if is_tell(carg) and isinstance(oarg, ast.Name):
        chk.ob(rid, "recorded offset is tell() of the file object being read", False, a, short(a, 80) + f" — the position is passed as `{aop[1]}`, the local `{oarg.id}` as `{aop[2]}`: the arguments are swapped")
        return loop, rets, tbl
    if not isinstance(carg, ast.Name) or oarg is None:
        chk.unknown(rid, f"prepare_file_offset_table: the arguments of `{short(a, 70)}` cannot be bound to (line number local, offset)", a)
        return loop, rets, tbl
    cnt = carg.id
    ok = sc.kind != "file" and len(sc.reads) == 1
    chk.ob(rid, "writer reads the data file line by line with readline()", ok, sc.read,
           "" if ok else ("the file is iterated another way (tell() is not a byte position then)" if sc.kind == "file" else f"{len(sc.reads)} reads per iteration of the scanning loop"))
    stores = [n for n in ast.walk(loop) if (isinstance(n, ast.AugAssign) and u(n.target) == cnt) or (isinstance(n, ast.Assign) and any(u(t) == cnt for t in n.targets))]
    by_index = sc.index == cnt
    inc = None
    if by_index:
        # enumerate(..., start): the counter is the position variable; it is the number of lines read so far iff the first position is 1
        try:
            first = ev(sc.start, {})
        except CannotEval:
            first = None
        if first is None:
            chk.unknown(rid, f"prepare_file_offset_table: the first value of the enumerate() counter `{u(sc.start)}` cannot be evaluated", loop)
        else:
            ok = first == 1 and not isinstance(first, bool) and not stores
            chk.ob(rid, "line counter += 1 once per line read", ok, loop, "" if ok else f"`{cnt}` is the enumerate() position starting at {first!r}" + (" and is stored to inside the loop" if stores else ""))
    elif not stores:
        chk.unknown(rid, f"prepare_file_offset_table: the line counter `{cnt}` (first argument of add_offset) is not advanced inside the scanning loop", loop)
    else:
        inc = stores[0]
        ok = len(stores) == 1 and isinstance(inc, ast.AugAssign) and isinstance(inc.op, ast.Add) and source.is_const(inc.value, 1) and not guards(inc, stop=loop) \
            and (sc.kind != "body" or g.dominated_by_nodes(g.node_of(inc), [g.node_of(sc.read)])) and len(sc.reads) == 1
        chk.ob(rid, "line counter += 1 once per line read", ok, inc, "" if ok else f"{len(stores)} store(s) to `{cnt}` in the loop: {short(inc, 60)}")
    ok = is_tell(oarg) and u(oarg.func.value) == sc.fobj
    chk.ob(rid, "recorded offset is tell() of the file object being read", ok, a, short(a, 80) + ("" if ok else " — a computed character/byte count is not the position to seek to"))
    if by_index:
        chk.ob(rid, "offset recorded after the counter was advanced for that line", any(x is loop for x in source.ancestors(a)), a, "the counter is advanced by the loop head")
    elif inc is not None:
        ok = g.dominated_by_nodes(g.node_of(a), [g.node_of(inc)]) and not g.path_exists(g.node_of(a), g.node_of(inc), avoid=[g.node_of(loop)])
        chk.ob(rid, "offset recorded after the counter was advanced for that line", ok, a, "")
    # end of file: evaluated on representative results of the read — "" ends the scan before it is counted, anything else (a blank line, a last line without newline) is counted
    if sc.kind == "iter":
        try:
            sv = ev(sc.sentinel, {})
            ok = isinstance(sv, (str, bytes)) and len(sv) == 0
            chk.ob(rid, "an empty read ends the scan before it is counted", ok, sc.read, "" if ok else f"iter() stops at {sv!r}, not at the empty read")
        except CannotEval:
            chk.unknown(rid, f"prepare_file_offset_table: the sentinel `{u(sc.sentinel)}` of iter() cannot be evaluated", sc.read)
    elif sc.kind in ("body", "test") and (by_index or inc is not None):
        wrong = []
        try:
            for v in _LINES:
                ends, counted = scan_step(loop, sc, cnt, v)
                if ends != (v == "") or (ends and counted) or (not ends and not counted and not by_index):
                    wrong.append(f"read {v!r}: {'ends the scan' if ends else 'goes on'}, {'counted' if counted else 'not counted'}")
            brk = [n for n in ast.walk(loop) if isinstance(n, ast.Break) and source.enclosing(n, (ast.While, ast.For)) is loop]
            chk.ob(rid, "an empty read ends the scan before it is counted", not wrong, brk[0] if brk else loop, "; ".join(wrong))
        except CannotEval as x:
            chk.unknown(rid, f"prepare_file_offset_table: the end-of-file test of the scanning loop cannot be evaluated: {x}", loop)
    # the value handed back is the counter, which starts at 0 before the loop (an empty file has 0 lines); None stands for "no rebuild"
    inits = [n for n in walk_body(pf) if isinstance(n, ast.Assign) and len(n.targets) == 1 and u(n.targets[0]) == cnt and not any(x is loop for x in source.ancestors(n))]
    vals = [returned(r) for r in rets]
    if not inits or not any(v is not None and u(v) == cnt for v in vals):
        chk.unknown(rid, f"prepare_file_offset_table: the initial value of the line counter `{cnt}` / the return of its final value cannot be located", pf)
    else:
        ok = len(inits) == 1 and source.is_const(inits[0].value, 0) and g.dominated_by_nodes(g.node_of(loop), [g.node_of(inits[0])]) \
            and all(v is None or u(v) == cnt or (isinstance(v, ast.Constant) and v.value is None) for v in vals) and any(v is None or (isinstance(v, ast.Constant) and v.value is None) for v in vals)
        chk.ob(rid, "returns the number of lines read (None when no rebuild was needed)", ok, pf, "" if ok else f"counter starts with {[u(n.value) for n in inits]}, returns {[u(v) for v in vals]}")
    op = opened_files(pf).get(sc.fobj)
    if op is None:
        chk.unknown(rid, f"prepare_file_offset_table: the open() call that yields the file object `{sc.fobj}` cannot be located", sc.read)
    else:
        mode = arg_of(op, 1, "mode")
        ok = arg_of(op, None, "encoding") is not None or (isinstance(mode, ast.Constant) and "b" in str(mode.value))
        chk.ob(rid, "data file opened with a fixed encoding", ok, op, "")
    return loop, rets, tbl


def offset_table_protocol(chk, io_mod, rid):
    """O14.6 / O3.7: writer and reader of the line-offset table agree."""
    if rid not in chk.rules:
        chk.rule(rid, "offset table: the writer counts one line per readline() and records (n, tell()) of the SAME byte-positioned file object only after the n-th line; the reader returns "
                 "(offset(L), target - L) for the largest L <= target; the skipper seeks, then reads exactly the remainder; separator and field order agree", 8,
                 "readers start mid-line or at the wrong line: documents duplicated / lost across clients (multi-byte content, files above 50,000 lines)")
    pf = io_mod.func("prepare_file_offset_table")
    loop, rets, tbl = offset_table_writer(chk, rid, io_mod, pf)
    FT = io_mod.cls("FileOffsetTable")
    fm = io_mod.methods(FT)
    ao = method(io_mod, FT, "add_offset")
    fc = method(io_mod, FT, "find_closest_offset")
    ap, tgt = params(ao, 3), params(fc, 2)[1]
    rr = [n for n in walk_body(fc) if isinstance(n, ast.Return)]
    fdefs = local_defs(fc)
    rd = [n for n in walk_body(fc) if isinstance(n, ast.Assign) and len(n.targets) == 1 and isinstance(n.targets[0], ast.Tuple) and source.enclosing(n, ast.For) is not None
          and any(isinstance(x, ast.Name) and isinstance(source.enclosing(n, ast.For).target, ast.Name) and x.id == source.enclosing(n, ast.For).target.id
                  for x in ast.walk(source.inline_node(n.value, fdefs)))]
    # what add_offset writes for one (line number, offset) pair: its print(..., file=...) / write(...) argument evaluated on the pair (minieval; nothing runs)
    wexpr = [arg_of(c, 0, None) for c in walk_body(ao) if isinstance(c, ast.Call) and ((dotted(c.func) == "print" and arg_of(c, None, "file") is not None) or last_attr(c.func) == "write") and c.args]

    def entry(n_, o_):
        if len(wexpr) != 1:
            raise CannotEval("the print(..., file=...) / write(...) call of add_offset")
        text_ = ev(wexpr[0], {ap[1]: n_, ap[2]: o_})
        if not isinstance(text_, str):
            raise CannotEval("the written entry is not a string")
        return text_.rstrip("\n") + "\n"

    floop = None
    roles_unknown = None  # (message, node) when the two parsed fields cannot be told apart by use: the format is then decided on the reader as a whole (below)
    if not rd or not (len(rd[0].targets[0].elts) == 2 and all(isinstance(t, ast.Name) for t in rd[0].targets[0].elts)):
        roles_unknown = ("FileOffsetTable.find_closest_offset: the statement that unpacks one table entry (read in a for loop over the table) into two names cannot be located", fc)
    else:
        floop = source.enclosing(rd[0], ast.For)
        n0, n1 = [t.id for t in rd[0].targets[0].elts]
        # roles of the two parsed fields, by use: the line number is the one compared with the target line, the offset the one that flows into the first element of the returned pair
        # (directly, or through a local of the loop: `closest = offset` ... `return closest, ...`)
        ret_t = returned(rr[0]) if rr else None
        ret0 = u(ret_t.elts[0]) if isinstance(ret_t, ast.Tuple) and ret_t.elts else None
        cmp_ = [nm for nm in (n0, n1) if any(isinstance(x, ast.Compare) and len(x.ops) == 1 and {u(x.left), u(x.comparators[0])} == {nm, tgt} for x in ast.walk(floop))]
        flows = [nm for nm in (n0, n1) if ret0 is not None and any(isinstance(x, ast.Assign) and u(x.targets[0]) == ret0 and u(x.value) == nm for x in ast.walk(floop))]
        if len(cmp_) != 1 or len(flows) != 1 or cmp_ == flows:
            roles_unknown = (f"FileOffsetTable.find_closest_offset: which parsed field is compared with `{tgt}` and which one becomes the returned offset cannot be told (compared: {cmp_}, returned: {flows})", rd[0])
        else:
            ln, off = cmp_[0], flows[0]
            # what the writer prints for (line number 7, offset 1234) is parsed by the reader's own expression (minieval; nothing runs): the field compared with the target must come out as 7,
            # the field that becomes the offset as 1234 — separator, field order, conversions all decided on the values
            try:
                text = entry(7, 1234)
                try:
                    got = ev(source.inline_node(rd[0].value, fdefs), {floop.target.id: text})
                    got = list(got) if isinstance(got, (list, tuple)) else None
                except CannotEval as x:
                    if not str(x).endswith(("ValueError", "IndexError")):
                        raise
                    got = None  # the reader's own conversion / indexing fails on what the writer wrote: the two do not agree
                if got is None or len(got) != 2:
                    chk.ob(rid, "writer format and reader parse agree (separator, field order)", False, rd[0], f"writer prints {text!r} for (line 7, offset 1234); the reader's parse does not yield two numbers from it")
                else:
                    env_ = dict(zip((n0, n1), got))
                    ok = env_[ln] == 7 and env_[off] == 1234 and type(env_[ln]) is int and type(env_[off]) is int
                    chk.ob(rid, "writer format and reader parse agree (separator, field order)", ok, rd[0], f"writer prints {text!r} for (line 7, offset 1234); reader takes line={env_[ln]!r}, offset={env_[off]!r}")
            except CannotEval as x:
                chk.unknown(rid, f"FileOffsetTable: the written entry / the reader's parse cannot be evaluated: {x}", rd[0])
    # The search itself, decided on VALUES: find_closest_offset is interpreted (exec_small: minieval for every expression, nothing runs) on tables made of what the writer prints for
    # ascending entries — role 'the open table file' = the attribute __enter__ binds the open() result to. Whatever the shape of the loop (if/else or guard clause, the remainder kept
    # in lock-step or computed once at the end, one or two remembered locals), the result must be (offset(L), target - L) for the largest L <= target, (0, target) without such an entry.
    ent_ = fm.get("__enter__")
    fattrs = sorted({n.targets[0].attr for n in (walk_body(ent_) if ent_ is not None else []) if isinstance(n, ast.Assign) and len(n.targets) == 1 and is_self_attr(n.targets[0])
                     and isinstance(n.value, ast.Call) and dotted(n.value.func) in ("open", "io.open")})
    entries = [(5, 100), (10, 250), (15, 300)]

    def probe(table, target):
        """(what find_closest_offset returns, number of table lines it consumed) for one table and target line."""
        lines = CountedLines(entry(n_, o_) for n_, o_ in table)
        kind, val, node_ = exec_small(fc.body, {"self": Record(**{a_: lines for a_ in fattrs}), tgt: target})
        if kind == "raise":
            raise CannotEval(f"the reader ends in `{short(node_, 50)}` for target line {target}")
        return (tuple(val) if isinstance(val, (list, tuple)) else val), lines.taken

    def want(table, target):
        best = max([e_ for e_ in table if e_[0] <= target], default=(0, 0))
        return best[1], target - best[0]

    whole = None  # True / False: the reader as a whole is right / wrong on every probe; None: it cannot be evaluated
    if not fattrs:
        chk.unknown(rid, "FileOffsetTable.__enter__: the attribute that receives the open() result (the table file the reader iterates) cannot be located", ent_ or FT)
    else:
        try:
            wrong, reads_on = [], False
            for t_ in (5, 6, 9, 10, 14, 15, 16, 1000):
                got, taken = probe(entries, t_)
                if got != want(entries, t_) or not all(type(x) is int for x in got):
                    wrong.append(f"target line {t_}: returns {got!r}, expected {want(entries, t_)!r}")
                reads_on = reads_on or taken > min(len([e_ for e_ in entries if e_[0] <= t_]) + 1, len(entries))
            chk.ob(rid, "reader: largest L <= target, remaining = target - L, stops at the first larger entry", not wrong, floop or fc,
                   f"table {entries}: " + ("; ".join(wrong[:3]) if wrong else "right for every probed target" + (" (the scan reads on behind the first larger entry: same result on an ascending table)" if reads_on else "")))
            wrong_d = []
            for table, t_ in (([], 0), ([], 7), (entries, 0), (entries, 4)):
                got, _ = probe(table, t_)
                if got != (0, t_):
                    wrong_d.append(f"{'empty table' if not table else f'table {table}'}, target line {t_}: returns {got!r}, expected {(0, t_)!r}")
            chk.ob(rid, "reader defaults: offset 0 and all lines remaining", not wrong_d, rr[0] if rr else fc, "; ".join(wrong_d[:3]))
            whole = not wrong and not wrong_d
        except CannotEval as x:
            if str(x).endswith(("ValueError", "IndexError")):
                # the reader's own conversion / unpacking fails on what the writer wrote
                chk.ob(rid, "reader: largest L <= target, remaining = target - L, stops at the first larger entry", False, floop or fc, f"the reader fails on a table written by add_offset: {x}")
                whole = False
            else:
                chk.unknown(rid, f"FileOffsetTable.find_closest_offset cannot be evaluated on a representative table: {x}", fc)
    if roles_unknown is not None:
        if whole:
            chk.ob(rid, "writer format and reader parse agree (separator, field order)", True, fc, "decided on the reader as a whole: it finds the right (offset, remaining lines) in tables written by add_offset")
        elif whole is None:
            chk.unknown(rid, roles_unknown[0], roles_unknown[1])
    sk = io_mod.func("skip_lines")
    skp = params(sk, 3)
    gs_ = cfg_of(sk)
    seek = [n for n in walk_body(sk) if isinstance(n, ast.Call) and isinstance(n.func, ast.Attribute) and n.func.attr == "seek"]
    rls = [n for n in walk_body(sk) if isinstance(n, ast.Call) and isinstance(n.func, ast.Attribute) and n.func.attr == "readline"]
    un = [n for n in walk_body(sk) if isinstance(n, ast.Assign) and isinstance(n.targets[0], ast.Tuple) and isinstance(n.value, ast.Call) and last_attr(n.value.func) == "find_closest_offset"
          and len(n.targets[0].elts) == 2 and all(isinstance(t, ast.Name) for t in n.targets[0].elts)]
    lp = source.enclosing(rls[0], ast.For) if rls else None
    if not (seek and rls and un and seek[0].args) or lp is None or not (isinstance(lp.iter, ast.Call) and dotted(lp.iter.func) == "range" and lp.iter.args and not lp.iter.keywords):
        chk.unknown(rid, "io.skip_lines: seek(<offset>), the `<offset>, <remaining> = ...find_closest_offset(...)` unpacking and the `for ... in range(...)` loop of readline() calls cannot all be located", sk)
    else:
        offv, remv = [t.id for t in un[0].targets[0].elts]
        # the number of readline() calls, decided on values: range(...) over the remaining-lines local has exactly that many elements (every other name := an unrelated number)
        try:
            counts = []
            for k in (0, 1, 5):
                env_ = {p_: 9 for p_ in skp}
                env_.update({offv: 4096, remv: k})
                counts.append(len(range(*[ev(a_, env_) for a_ in lp.iter.args])) == k)
            exact = all(counts)
        except (CannotEval, TypeError, ValueError):
            exact = False
        fb_ = source.bind_args(un[0].value, fc)
        ok = u(seek[0].args[0]) == offv and exact and gs_.dominated_by_nodes(gs_.node_of(rls[0]), [gs_.node_of(seek[0])]) and u(fb_.get(tgt)) == skp[2] \
            and u(seek[0].func.value) == u(rls[0].func.value) == skp[1] and len(rls) == 1
        chk.ob(rid, "skipper: seek(offset) then exactly `remaining` readline() calls on the same file", ok, sk, "")
        # without a table: the other definitions of the two locals are offset 0 and every line still to skip
        alt = [n for n in walk_body(sk) if isinstance(n, ast.Assign) and len(n.targets) == 1 and isinstance(n.targets[0], ast.Name) and n.targets[0].id in (offv, remv)]
        if not alt:
            chk.unknown(rid, f"io.skip_lines: the values of `{offv}` / `{remv}` for a data file without offset table cannot be located", sk)
        else:
            ok = all((source.is_const(n.value, 0) if n.targets[0].id == offv else u(n.value) == skp[2]) for n in alt) and {n.targets[0].id for n in alt} == {offv, remv}
            chk.ob(rid, "without a table all lines are skipped one by one from offset 0", ok, alt[0], "")
    # freshness: a table is used only when it exists and is at least as new as the data file; the scan is skipped only for such a table
    iv = fm.get("is_valid")
    ent = fm.get("__enter__")
    finit = fm.get("__init__")
    T = D = None
    if ent is not None:
        for n in walk_body(ent):
            if isinstance(n, ast.Call) and dotted(n.func) == "open" and n.args and is_self_attr(n.args[0]):
                T = n.args[0].attr
    if finit is not None:
        first = params(finit, 2)[1]
        for n in walk_body(finit):
            if isinstance(n, ast.Assign) and is_self_attr(n.targets[0]) and u(n.value) == first:
                D = n.targets[0].attr
    if iv is None or not T or not D or T == D:
        chk.unknown(rid, "FileOffsetTable: is_valid() / the attributes holding the table's and the data file's path cannot be located", FT)
    else:
        # is_valid() evaluated (tables.decide / minieval) on representative worlds: (table exists?, mtime of the table, mtime of the data file); `>=` and `>` are both accepted
        exists_keys = ["self.exists()"] + [f"{f_}(self.{T})" for f_ in _EXISTS]
        wrong = []
        try:
            for e_, t_, d_, want in ((False, 5, 3, False), (False, 3, 5, False), (True, 5, 3, True), (True, 3, 5, False)):
                got = bool(fn_result(iv, dict({k: e_ for k in exists_keys}, **{f"os.path.getmtime(self.{T})": t_, f"os.path.getmtime(self.{D})": d_})))
                if got != want:
                    wrong.append(f"table {'exists' if e_ else 'missing'}, table mtime {t_}, data mtime {d_}: {'valid' if got else 'invalid'}")
            chk.ob(rid, "table valid iff it exists and its mtime >= the data file's mtime", not wrong, iv, "; ".join(wrong), key=f"{io_mod.relpath}:FileOffsetTable.is_valid:freshness")
        except CannotEval as x:
            chk.unknown(rid, f"FileOffsetTable.is_valid cannot be evaluated: {x}", iv)
    # role: the table object = the receiver of the add_offset call; the guard of the scan = the explicit / guard-clause conditions around the loop that consult that object
    if loop is not None and tbl is not None:
        tbls = {tbl} | {k for k, v in local_defs(pf).items() if isinstance(v, ast.Call) and FT.name in (dotted(v.func) or "").split(".")}  # every local holding a table object of the data file
        consulted = [c for f_ in pat.fact_nodes(loop) for c in ast.walk(f_) if isinstance(c, ast.Call) and isinstance(c.func, ast.Attribute) and u(c.func.value) in tbls]
        if not consulted:
            chk.unknown(rid, f"prepare_file_offset_table: no condition around the scanning loop consults the table object `{tbl}` (when the scan runs cannot be decided)", loop)
        else:
            ok = {c.func.attr for c in consulted} == {"is_valid"} and any(pat.guarded(loop, f"not {t_}.is_valid()") is not None for t_ in tbls) and bool(rets) \
                and all(pat.guarded(r, "not E_t.is_valid()") is None for r in rets if isinstance(r.value, ast.Constant) and r.value.value is None)
            chk.ob(rid, "the scan runs iff the table is not valid; None is returned only for a valid table", ok, consulted[0],
                   "" if ok else f"the scan is guarded by {sorted({short(c, 40) for c in consulted})}", key=f"{io_mod.relpath}:prepare_file_offset_table:rebuild-guard")


def gdl_has_normal_return(fn) -> bool:
    """every normal exit of fn is an explicit return statement (the function cannot fall off its end and yield None)."""
    g = cfg_of(fn)
    rets = [g.node_of(n) for n in walk_body(fn) if isinstance(n, ast.Return)]
    return bool(rets) and g.must_pass(g.entry, rets, normal_only=True)


def line_count_rule(chk, rid, ldr):
    """DocumentSetPreparator.create_file_offset_table: a line count that differs from the declared document count (0 lines included) removes the freshly written offset table and
    raises — shared with C03: a table left behind makes the retry skip the count (the table looks up to date) and the slices are then cut from the declared count."""
    cf = method(ldr, ldr.cls("DocumentSetPreparator"), "create_file_offset_table")
    params(cf, 3)
    gc = cfg_of(cf)
    cdefs = local_defs(cf)
    lr = [k for k, v in cdefs.items() if isinstance(v, ast.Call) and last_attr(v.func) == "prepare_file_offset_table"]
    key = f"{_L}:DocumentSetPreparator.create_file_offset_table:line-count-check"
    if not lr:
        chk.unknown(rid, "create_file_offset_table: the local that receives the result of io.prepare_file_offset_table (the optional number of lines read) cannot be located", cf)
        return
    ifs = [n for n in walk_body(cf) if isinstance(n, ast.If) and any(isinstance(x, ast.Name) and x.id == lr[0] for x in ast.walk(n.test))]
    if not ifs:
        handed = [c for c in walk_body(cf) if isinstance(c, ast.Call) and not is_logging_stmt(source.enclosing_stmt(c))
                  and any(isinstance(a_, ast.Name) and a_.id == lr[0] for a_ in list(c.args) + [k.value for k in c.keywords])]
        if handed:
            chk.unknown(rid, f"create_file_offset_table: the number of lines read `{lr[0]}` is tested nowhere in the method but handed to `{short(handed[0], 60)}`, which is not followed", handed[0])
            return
        chk.ob(rid, "line-count mismatch (including 0 lines) removes the table and raises", False, cf, f"no test consults the number of lines read `{lr[0]}`: a truncated document file is accepted", key=key)
        return
    # role: v = the local holding the (optional) number of lines read; the statement is evaluated on representative (lines read, expected) pairs: None (no rebuild) is never a
    # mismatch, a count — 0 included — is one iff it differs from the expected number; the path taken for a mismatch (whichever arm / nesting) removes the table, then raises
    v = lr[0]
    en = params_of(cf)[2]
    detail = f"`{u(ifs[0].test)}`"
    ok, d_, res = mismatch_outcomes(ifs[0], v, en)
    if not res:
        chk.unknown(rid, f"create_file_offset_table: the line-count test {detail} cannot be evaluated: {d_}", ifs[0])
        return
    hit = res[(7, 6)]
    truthy = hit.kind == "raise" and res[(7, 7)].kind != "raise" and res[(0, 6)].kind != "raise"
    # role 'removes the table': a call on the mismatch path, handed the document file, that removes the very name the readers open — decided on values by TableInvalidation (the
    # callee followed into io.py / FileOffsetTable / helper methods of the class, arguments bound by parameter, the table's name derived from the reading factory, not spelled here)
    removed = None
    if ok and hit.kind == "raise":
        P = ldr.cls("DocumentSetPreparator")
        cands = [x for s in before_in_block(hit.node) for x in ast.walk(s) if isinstance(x, ast.Call) and last_attr(x.func) != "prepare_file_offset_table"]
        try:
            io_mod = ldr.repo.module(_I)
            inv = TableInvalidation(io_mod, TableRoles(io_mod), ldr, P)
            ctx = inv.ctx(ldr, cf, {params_of(cf)[1]})
            verdicts = [inv.call_removes(x, ctx) for x in cands]
        except AnchorMissing:
            verdicts = [True if last_attr(x.func) == "remove_file_offset_table" else None for x in cands]
        removed = True if any(v_ is True for v_ in verdicts) else (None if any(v_ is None for v_ in verdicts) else False)
        if removed is None:
            opaque = [x for x, v_ in zip(cands, verdicts) if v_ is None]
            chk.unknown(rid, f"create_file_offset_table: whether `{short(opaque[0], 60)}` on the line-count mismatch path removes the offset table cannot be followed", opaque[0])
            return
        if not removed:
            detail += " — the mismatch path does not remove the freshly written offset table (the next run takes it as valid and skips the count)"
    ok = ok and hit.kind == "raise" and raises_on_all_paths(gc, [gc.node_of(hit.node)]) and removed is True
    if truthy:
        detail += " tests the optional line count by truthiness: a file with 0 lines skips the comparison"
    elif d_:
        detail += " — " + d_
    chk.ob(rid, "line-count mismatch (including 0 lines) removes the table and raises", ok, ifs[0], detail, key=key)


def size_verification(f, g, ifs, path, exp):
    """(if node or None, ok, detail) — among `ifs`, the (outermost) one that compares the declared-size parameter `exp` with another value (role: the measured size). ok iff that value is
    os.path.getsize(<path parameter>) (directly or through single-assignment locals) and the statement, evaluated on representative (declared, measured) pairs, ends in a raise exactly
    for a mismatch (None = undeclared is never one, a declared 0 is honoured) — whichever arm / nesting the raise sits in."""
    S, meas = comparing_if(ifs, exp)
    if S is None:
        return None, False, f"no test compares `{exp}` with the size on disk"
    ok, detail, res = mismatch_outcomes(S, exp, u(meas))
    if not same_value(meas, expr(f"os.path.getsize({path})"), local_defs(f)):
        ok, detail = False, f"`{u(meas)}` is not os.path.getsize({path})"
    if ok and not all(raises_on_all_paths(g, [g.node_of(o.node)]) for o in res.values() if o.kind == "raise"):
        ok, detail = False, "the raise for a mismatch is caught inside the function"
    return S, ok, detail


def path_roles(f):
    """(document-file local, archive local, document-set parameter) of a prepare method, by definition: the single-assignment locals computed from <document_set>.document_file / .document_archive."""
    ds = params(f, 2)[1]
    defs = local_defs(f)

    def one(attr):
        ks = [k for k, v in defs.items() if any(isinstance(x, ast.Attribute) and x.attr == attr and u(x.value) == ds for x in ast.walk(v))]
        if len(ks) != 1:
            raise AnchorMissing(f"local computed from {ds}.{attr} in {f.name}")
        return ks[0]

    return one("document_file"), one("document_archive"), ds


# ---------------------------------------------------------------------------------------------------------------------------------------------------------------
# O14.8 (F24) the offset table is published by a rename only / O14.9 (F25) a (re)created document file invalidates its offset table

_REP = "/data/corpus/documents.json"  # representative data-file path on which the extracted path expressions are evaluated (minieval; no repository code runs)
_RENAMES = ("os.rename", "os.replace", "shutil.move")
_REMOVES = ("os.remove", "os.unlink")
_EXISTS = ("os.path.exists", "os.path.isfile", "os.path.lexists")


def subst(e, mapping):
    """fresh copy of the expression e with the (loaded) names of `mapping` replaced by the mapped expressions — one pass, the replacements are not visited again."""

    class S(ast.NodeTransformer):
        def visit_Name(self, n):
            return source.clone(mapping[n.id]) if isinstance(n.ctx, ast.Load) and n.id in mapping else n

    return S().visit(source.clone(e))


def helper_functions(mod):
    """{name: def} of the functions defined at the top level of the module (candidates for 'extracted helper')."""
    return {f.name: f for f in mod.tree.body if isinstance(f, source.FUNC_TYPES)}


def bound_params(args, kws, func):
    """{parameter of func (self aside): expression} for the positional / keyword arguments of one call as listed by calls_through."""
    names = own_params(func)
    out = {}
    for i, a in enumerate(args):
        if isinstance(a, ast.Starred):
            break
        if i < len(names):
            out[names[i]] = a
    for k, v in kws.items():
        if k in names or k in [x.arg for x in func.args.kwonlyargs]:
            out[k] = v
    return out


def calls_through(mod, fn, depth=2, cls=None):
    """[(call, [positional argument expressions], {keyword: expression}, root)] — every call made in fn's own body and, following calls of functions defined at the top level of the same
    module — and, with cls, methods of that class called as self.m(...) — (extracted helpers) up to `depth` levels, in theirs. The arguments are expressed in fn's terms: a helper's parameters are replaced by the expressions it was called with (its
    defaults when not passed), its own locals get a name that cannot clash with fn's. root = the call in fn's own body through which the call is reached (the call itself at level 0)."""
    helpers = helper_functions(mod)
    methods = mod.methods(cls) if cls is not None else {}
    out = []

    def sub(e, binding):
        return e if not binding or isinstance(e, ast.Starred) else subst(e, binding)

    def rec(f, binding, root, d, stack):
        for c in walk_body(f):
            if not isinstance(c, ast.Call):
                continue
            args = [sub(a, binding) for a in c.args]
            kws = {k.arg: sub(k.value, binding) for k in c.keywords if k.arg}
            r = root if root is not None else c
            out.append((c, args, kws, r))
            h = helpers.get(c.func.id) if isinstance(c.func, ast.Name) else (methods.get(c.func.attr) if isinstance(c.func, ast.Attribute) and is_self_attr(c.func) else None)
            if h is None or h in stack or d >= depth:
                continue
            a = h.args
            names = [x.arg for x in a.posonlyargs + a.args]
            if h.name in methods and methods[h.name] is h and names and names[0] in ("self", "cls"):
                names = names[1:]
            b = {}
            for i, v in enumerate(args):
                if isinstance(v, ast.Starred):
                    break
                if i < len(names):
                    b[names[i]] = v
            for k, v in kws.items():
                if k in names or k in [x.arg for x in a.kwonlyargs]:
                    b[k] = v
            for nm, dv in list(zip(names[len(names) - len(a.defaults):], a.defaults)) + [(x.arg, dv) for x, dv in zip(a.kwonlyargs, a.kw_defaults) if dv is not None]:
                b.setdefault(nm, dv)
            for x in ast.walk(h):  # the helper's own names (locals, parameters that were not bound) must not be mistaken for names of fn
                nm = x.id if isinstance(x, ast.Name) and isinstance(x.ctx, ast.Store) else (x.arg if isinstance(x, ast.arg) else None)
                if nm is not None and nm not in b and nm not in ("self", "cls"):
                    b[nm] = ast.Name(id=f"{nm}__in_{h.name}", ctx=ast.Load())
            rec(h, b, r, d + 1, stack + [h])

    rec(fn, {}, None, 0, [fn])
    return out


def record_fields(mod, name):
    """field names, in constructor order, of the record class `name` of the module: a class whose body declares annotated fields (typing.NamedTuple / dataclass) or a
    `Name = namedtuple("Name", [...])` assignment; None when `name` is not such a class."""
    for st_ in mod.tree.body:
        if isinstance(st_, ast.ClassDef) and st_.name == name:
            fs = [x.target.id for x in st_.body if isinstance(x, ast.AnnAssign) and isinstance(x.target, ast.Name)]
            has_init = any(isinstance(x, source.FUNC_TYPES) and x.name in ("__init__", "__new__") for x in st_.body)
            return fs if fs and not has_init else None
        if isinstance(st_, ast.Assign) and len(st_.targets) == 1 and isinstance(st_.targets[0], ast.Name) and st_.targets[0].id == name and isinstance(st_.value, ast.Call) \
                and last_attr(st_.value.func) in ("namedtuple", "NamedTuple") and len(st_.value.args) == 2:
            try:
                spec = ast.literal_eval(st_.value.args[1])
            except (ValueError, SyntaxError):
                return None
            fs = spec.replace(",", " ").split() if isinstance(spec, str) else [x if isinstance(x, str) else x[0] for x in spec]
            return list(fs)
    return None


class Alternatives:
    """the values an expression written in a method may stand for, in the method's own terms — by data flow, not by the names of locals:
    a local assigned inside `scope` (plain, `a, b = x, y`, `a, b = <pair>`) stands for each of its assigned values (key: the explicit guards of the assignment);
    `<call of a helper method of the class / function of the module>` stands for each expression the helper returns, with the helper's parameters replaced by the call's arguments
    (key: the return statement); `<record>.field` / `<pair>[i]` of a record constructor (NamedTuple / dataclass of the module) or a tuple display is that component.
    of(e) -> [(key, expression)]; expressions that cannot be taken apart are handed back as they are (key ())."""

    def __init__(self, mod, cls, scope, keep=()):
        self.mod, self.scope, self.keep = mod, scope, set(keep)
        self.cls = cls
        self.methods = mod.methods(cls) if cls is not None else {}
        self.helpers = helper_functions(mod)

    def assigned(self, name):
        out = []
        for n in ast.walk(self.scope):
            if not (isinstance(n, ast.Assign) and len(n.targets) == 1):
                continue
            t = n.targets[0]
            if isinstance(t, ast.Name) and t.id == name:
                out.append((n, n.value))
            elif isinstance(t, (ast.Tuple, ast.List)):
                for i, el in enumerate(t.elts):
                    if isinstance(el, ast.Name) and el.id == name:
                        if isinstance(n.value, (ast.Tuple, ast.List)) and len(n.value.elts) == len(t.elts):
                            out.append((n, n.value.elts[i]))  # `a, b = x, y`
                        else:
                            out.append((n, ast.Subscript(value=n.value, slice=ast.Constant(value=i), ctx=ast.Load())))  # `a, b = <pair>`
        return out

    def helper_of(self, call):
        if isinstance(call.func, ast.Name):
            return self.helpers.get(call.func.id)
        if isinstance(call.func, ast.Attribute) and is_self_attr(call.func):
            return self.methods.get(call.func.attr)
        return None

    def component(self, base, proj):
        """the component `proj` (an Attribute / Subscript node whose value is `base`) selects from the record constructor call / tuple display `base`; None when it cannot be told."""
        idx = proj.slice.value if isinstance(proj, ast.Subscript) and isinstance(proj.slice, ast.Constant) and isinstance(proj.slice.value, int) else None
        if isinstance(base, (ast.Tuple, ast.List)):
            return base.elts[idx] if idx is not None and -len(base.elts) <= idx < len(base.elts) and not any(isinstance(x, ast.Starred) for x in base.elts) else None
        if isinstance(base, ast.Call) and not any(isinstance(x, ast.Starred) for x in base.args) and all(k.arg for k in base.keywords):
            fs = record_fields(self.mod, last_attr(base.func) or "")
            if fs is None:
                return None
            if isinstance(proj, ast.Attribute):
                if proj.attr not in fs:
                    return None
                idx = fs.index(proj.attr)
            if idx is None or not -len(fs) <= idx < len(fs):
                return None
            idx %= len(fs)
            if idx < len(base.args):
                return base.args[idx]
            return next((k.value for k in base.keywords if k.arg == fs[idx]), None)
        return None

    def of(self, e, depth=0):
        if depth > 6:
            return [((), e)]
        if isinstance(e, ast.Name) and e.id not in self.keep:
            asg = self.assigned(e.id)
            if asg:
                return [(tuple((u(t), pol) for t, pol in guards(n, stop=self.scope)) + k, x) for n, v in asg for k, x in self.of(v, depth + 1)]
            return [((), e)]
        if isinstance(e, (ast.Attribute, ast.Subscript)) and isinstance(getattr(e, "ctx", None), ast.Load) and not is_self_attr(e):
            out = []
            for k, base in self.of(e.value, depth + 1):
                c_ = self.component(base, e)
                if c_ is None:
                    out.append((k, e if base is e.value else (ast.Attribute(value=base, attr=e.attr, ctx=ast.Load()) if isinstance(e, ast.Attribute) else ast.Subscript(value=base, slice=e.slice, ctx=ast.Load()))))
                else:
                    out += [(k + k2, x) for k2, x in self.of(c_, depth + 1)]
            return out
        if isinstance(e, ast.Call):
            h = self.helper_of(e)
            rets = [r for r in walk_body(h) if isinstance(r, ast.Return) and r.value is not None] if h is not None else []
            if rets and not any(isinstance(x, (ast.Yield, ast.YieldFrom)) for x in walk_body(h)):
                b = dict(source.bind_args(e, h))
                a = h.args
                names = own_params(h)
                for nm, dv in list(zip([x.arg for x in a.posonlyargs + a.args][len(a.posonlyargs + a.args) - len(a.defaults):], a.defaults)) + [(x.arg, dv) for x, dv in zip(a.kwonlyargs, a.kw_defaults) if dv is not None]:
                    b.setdefault(nm, dv)
                for x in ast.walk(h):  # the helper's own names (locals, unbound parameters) must not be mistaken for names of the caller
                    nm = x.id if isinstance(x, ast.Name) and isinstance(x.ctx, ast.Store) else (x.arg if isinstance(x, ast.arg) else None)
                    if nm is not None and nm not in b and nm not in ("self", "cls"):
                        b[nm] = ast.Name(id=f"{nm}__in_{h.name}", ctx=ast.Load())
                inner = Alternatives(self.mod, self.cls, h, keep=names)
                out = []
                for r in rets:
                    for k, x in inner.of(returned(r), depth + 1):
                        # in the caller's terms, and taken apart further there (an argument may itself be a local of the caller)
                        out += [((("return", h.name, r.lineno),) + k + k2, y) for k2, y in self.of(subst(x, b), depth + 1)]
                return out
        return [((), e)]

    def table(self, e):
        """{key: text} of of(e), the unconditional alternative under the key None (the form the pairing code below works on)."""
        return {(k or None): u(x) for k, x in self.of(e)}


def removes_file(stmts, path, mod, depth=0):
    """True / False: the statement list, evaluated for the case 'the file named by the local `path` exists' (every existence test of it is true; tables.decide, nothing runs), removes
    that file — os.remove / os.unlink of it, directly or through a helper function of the same module that is called with it. None when the statements are beyond the evaluator.
    (`try: os.remove(p) except FileNotFoundError: pass` is read as its normal path.)"""
    flat_ = []
    for s_ in stmts:
        flat_ += (s_.body + s_.orelse + s_.finalbody) if isinstance(s_, ast.Try) else [s_]

    def atom(n, env):
        if isinstance(n, ast.Call) and dotted(n.func) in _EXISTS and len(n.args) == 1 and u(n.args[0]) == path:
            return True
        return None

    def on_stmt(s_, env, b):
        return "skip" if is_logging_stmt(s_) else None

    try:
        o = tables.decide(flat_, atom, {}, on_stmt=on_stmt)
    except (tables.Unsupported, UnknownAtom, CannotEval):
        return None
    helpers = helper_functions(mod)
    for e in o.effects:
        if not isinstance(e, ast.Call):
            continue
        d = dotted(e.func) or ""
        if d in _REMOVES and len(e.args) == 1 and u(e.args[0]) == path:
            return True
        h = helpers.get(d)
        if h is not None and depth < 2:
            for p_, a_ in source.bind_args(e, h).items():
                if u(a_) == path and removes_file(h.body, p_, mod, depth + 1):
                    return True
    return False


class Opaque:
    """stands for a value the evaluator does not look into (a function object / class stored in a dispatch table); only its identity matters."""

    def __init__(self, text):
        self.text = text

    def __repr__(self):
        return f"<{self.text}>"


def module_tables(mod):
    """{name: value} of the module-level `NAME = <container>` assignments (dict / list / tuple / set literals, frozenset(...) / set(...) / tuple(...) of one, comprehensions over an
    earlier table), evaluated by minieval in the order of the assignments with the earlier tables bound. Dict
    values and sequence elements that are not literals (function objects, classes, lambdas) become Opaque placeholders: membership tests, .get() and subscripts on such a dispatch
    table are decided on its literal keys."""
    def val(e):
        try:
            return ev(e, {})
        except CannotEval:
            if isinstance(e, (ast.Tuple, ast.List)):
                vs = [val(x) for x in e.elts]
                return tuple(vs) if isinstance(e, ast.Tuple) else vs
            return Opaque(u(e)[:40])

    out = {}
    for st in mod.tree.body:
        if isinstance(st, ast.AnnAssign) and st.value is not None and isinstance(st.target, ast.Name):
            tgt, v = st.target.id, st.value
        elif isinstance(st, ast.Assign) and len(st.targets) == 1 and isinstance(st.targets[0], ast.Name):
            tgt, v = st.targets[0].id, st.value
        else:
            continue
        out.pop(tgt, None)  # bound again: only the value of an evaluable last binding counts
        try:
            if isinstance(v, ast.Dict) and all(k is not None for k in v.keys):
                out[tgt] = {ev(k, dict(out)): val(x) for k, x in zip(v.keys, v.values)}
            elif isinstance(v, (ast.List, ast.Tuple, ast.Set, ast.ListComp, ast.SetComp)) or (isinstance(v, ast.Call) and dotted(v.func) in ("frozenset", "set", "tuple", "list", "sorted")):
                # a table DERIVED from an earlier one (`tuple(e for e in TABLE if e.count(".") > 1)`, `frozenset(TABLE)`) is evaluated on the value of that table
                out[tgt] = ev_str(v, dict(out))
        except (CannotEval, TypeError, ValueError):
            pass
    return out


def inline_predicates(e, methods, keep=(), depth=0):
    """fresh copy of the condition e in which every call `self.m(args)` of a method m of the class whose body is (docstring / logging aside) a single `return <expression>` is replaced
    by that expression over the arguments — an extracted predicate reads like the condition it was extracted from. Methods named in `keep` (the anchors) stay calls."""

    class T(ast.NodeTransformer):
        def visit_Call(self, n):
            self.generic_visit(n)
            if isinstance(n.func, ast.Attribute) and is_self_attr(n.func) and n.func.attr in methods and n.func.attr not in keep and depth < 3 and not any(isinstance(a, ast.Starred) for a in n.args):
                m = methods[n.func.attr]
                body = [x for x in m.body if not is_logging_stmt(x) and not (isinstance(x, ast.Expr) and isinstance(x.value, ast.Constant))]
                if len(body) == 1 and isinstance(body[0], ast.Return) and body[0].value is not None:
                    return inline_predicates(subst(body[0].value, source.bind_args(n, m)), methods, keep, depth + 1)
            return n

    return T().visit(source.clone(e))


def cond_implies(cond, required) -> bool:
    """the condition `cond`, over every truth assignment of its atoms (the leaves of its and / or / not structure, at most 10), is true only when each predicate of `required`
    (atom -> bool: 'this atom states the required fact') has a true atom."""
    atoms = {}
    for a in atoms_of(cond):
        atoms.setdefault(u(a), a)
    names = sorted(atoms)
    if len(names) > 10:
        return False
    groups = [[t for t in names if r(atoms[t])] for r in required]
    for vals in itertools.product([False, True], repeat=len(names)):
        env = dict(zip(names, vals))
        try:
            if bool_eval(cond, lambda n: env.get(u(n))) and not all(any(env[t] for t in g_) for g_ in groups):
                return False
        except UnknownAtom:
            return False
    return True


def fn_result(fn, vals):
    """the value the small function fn returns when the sub-expressions whose text is a key of `vals` have the given representative values: its statements are walked by tables.decide,
    every test and the returned expression evaluated by minieval with the locals bound on the way substituted (guard clauses, temporaries, either arm order all read the same).
    CannotEval when a statement / expression is beyond the evaluator. No repository code runs."""
    cur = {}

    def inl(n):
        return source.inline_node(n, {k: v for k, v in cur.items() if v is not None})

    def atom(n, env):
        return bool(eval_with(inl(n), vals))

    def on_stmt(s_, env, b):
        cur.clear()
        cur.update(b)
        return "skip" if is_logging_stmt(s_) else None

    try:
        o = tables.decide(fn.body, atom, {}, on_stmt=on_stmt)
    except (tables.Unsupported, UnknownAtom) as e:
        raise CannotEval(str(e))
    if o.kind == "return":
        return None if o.value is None else eval_with(inl(o.value), vals)
    if o.kind == "fallthrough":
        return None
    raise CannotEval(f"{getattr(fn, 'name', '?')} ends with `{o.text()[:60]}`")


class AnyValue:
    """stands for 'some object' (not None, truthy) handed in as a parameter whose concrete value the evaluation must not depend on; a subscript of it is another one."""

    def __init__(self, text):
        self.text = text

    def __getitem__(self, k):
        return AnyValue(f"{self.text}[{k!r}]")

    def __repr__(self):
        return f"<{self.text}>"


def fallback_worlds(fn, is_ext, is_lib):
    """The worlds in which fn ends normally without having decompressed anything. fn (the routine that tries an external tool and falls back to the library) is evaluated once per
    world — (the external run reported success?) x (a truth value for every other opaque predicate call it tests, e.g. `is_executable(<tool>)`) — by tables.decide; every other test
    (a flag local compared with None, ...) is evaluated by minieval on the locals bound on the way, the parameters standing for arbitrary objects. A world is fine when the path taken
    raises, holds a call for which is_lib is true, or has tested the external run and that run succeeded. -> descriptions of the other worlds; CannotEval when fn is beyond the evaluator."""
    a = fn.args
    env0 = {x.arg: AnyValue(x.arg) for x in a.posonlyargs + a.args + a.kwonlyargs}

    class Need(Exception):
        pass

    def run(world, ext_ok):
        cur, tested = {}, []

        def atom(n, env):
            if isinstance(n, ast.BoolOp) or (isinstance(n, ast.UnaryOp) and isinstance(n.op, ast.Not)):
                return None
            m = source.inline_node(n, {k: v for k, v in cur.items() if v is not None})
            if isinstance(m, ast.IfExp):  # `ok = external(...) if is_executable(tool) else False`: the arm the world selects
                pick = lambda x: bool_eval(x, lambda y: atom(y, env))  # noqa: E731
                return pick(m.body) if pick(m.test) else pick(m.orelse)
            if is_ext(m):
                tested.append(n)
                return ext_ok
            try:
                return bool(ev(m, dict(env0)))
            except (CannotEval, TypeError, ValueError, AttributeError) as x:
                if isinstance(m, ast.Call) and not any(is_ext(x_) for x_ in ast.walk(m)):
                    if u(m) not in world:
                        raise Need(u(m))
                    return world[u(m)]
                raise CannotEval(f"`{u(m)[:60]}`: {x}")

        def on_stmt(s_, env, b):
            cur.clear()
            cur.update(b)
            return "skip" if is_logging_stmt(s_) else None

        try:
            o = tables.decide(fn.body, atom, {}, on_stmt=on_stmt)
        except (tables.Unsupported, UnknownAtom) as x:
            raise CannotEval(str(x))
        if o.kind not in ("fallthrough", "return"):
            return True
        done = [x for e in o.effects + ([o.value] if o.value is not None else []) for x in ast.walk(e)]
        return any(isinstance(x, ast.Call) and is_lib(x) for x in done) or (ext_ok and (bool(tested) or any(is_ext(x) for x in done)))

    free = []
    while True:
        try:
            wrong = []
            for vals in itertools.product([True, False], repeat=len(free)):
                world = dict(zip(free, vals))
                for ext_ok in (True, False):
                    if not run(world, ext_ok):
                        wrong.append(", ".join([f"`{k[:50]}` is {v}" for k, v in world.items()] + [f"the external run {'succeeds' if ext_ok else 'fails'}"]))
            return wrong
        except Need as x:
            if len(free) >= 4:
                raise CannotEval("more than 4 opaque predicates")
            free.append(str(x))


def returned_later(fn, assign) -> bool:
    """the local bound by `assign` is bound nowhere else in fn (a `= None` initialisation aside) and some `return <that local>` of fn is reachable from the assignment."""
    nm = assign.targets[0].id if len(assign.targets) == 1 and isinstance(assign.targets[0], ast.Name) else None
    if nm is None:
        return False
    others = [n for n in walk_body(fn) if isinstance(n, ast.Assign) and n is not assign and any(isinstance(t, ast.Name) and t.id == nm for t in n.targets)]
    if any(not (isinstance(n.value, ast.Constant) and n.value.value is None) for n in others):
        return False
    g = cfg_of(fn)
    rets = [n for n in walk_body(fn) if isinstance(n, ast.Return) and isinstance(n.value, ast.Name) and n.value.id == nm]
    return any(g.path_exists(g.node_of(assign), g.node_of(r), edge_ok=g.normal_edge) for r in rets)


def handler_outcome(h, vals):
    """how the except handler h ends when the names / sub-expressions of `vals` have the given values (tables.decide, tests by minieval; logging and other statements without a jump are
    skipped): a tables.Outcome — raise / return / break / continue / fallthrough. CannotEval when a test that matters cannot be evaluated."""
    def atom(n, env):
        return bool(eval_with(n, vals))

    def on_stmt(s_, env, b):
        return None if any(isinstance(x, _JUMPS) for x in ast.walk(s_)) else "skip"

    try:
        return tables.decide(h.body, atom, {}, on_stmt=on_stmt)
    except (tables.Unsupported, UnknownAtom) as e:
        raise CannotEval(str(e))


_RETRIED = ("urllib3.exceptions.ProtocolError", "urllib3.exceptions.ReadTimeoutError")  # a connection dropped in the middle of the body / a stalled one: the transfer is started over
# failures that must reach the caller at once: the superclasses of the two (urllib3's HTTPError / TimeoutError), other urllib3 errors, an HTTP status error, OS errors, an interrupt
_NOT_RETRIED = ("urllib3.exceptions.HTTPError", "urllib3.exceptions.TimeoutError", "urllib3.exceptions.MaxRetryError", "urllib3.exceptions.ConnectTimeoutError",
                "urllib.error.HTTPError", "urllib.error.URLError", "OSError", "ConnectionError", "Exception", "KeyboardInterrupt")
_LOGGISH = ("logging.", "logger.", "console.", "self.logger.")


class Unbounded(Exception):
    pass


class TransferPlay:
    """download_http interpreted statement by statement (exec_small, exception mode; nothing of the repository runs) with every call of the transfer ANSWERED by a script: the k-th call
    raises the class script[k] (None = it succeeds and hands back `result`), every call beyond the script is answered by `rest`. Records the evaluated arguments of every attempt (bound to
    the transfer's parameters) and the pauses; `end` = ("return", value) | ("raise", SimRaise) | ("fallthrough", None)."""

    result = Opaque("the size reported by the transfer")

    def __init__(self, mod, fn, callee, tcalls, env, hier, script, rest):
        self.calls, self.pauses, self.raised = [], [], []
        mexpr = {st_.targets[0].id: st_.value for st_ in mod.tree.body if isinstance(st_, ast.Assign) and len(st_.targets) == 1 and isinstance(st_.targets[0], ast.Name)}

        def class_names(e, depth=0):
            """dotted class names an except clause's type expression stands for (tuples, module-level names bound to a class / a tuple of classes followed)."""
            if e is None:
                return ["BaseException"]
            if isinstance(e, (ast.Tuple, ast.List)):
                return [x for el in e.elts for x in class_names(el, depth)]
            if isinstance(e, ast.Name) and e.id in mexpr and depth < 4:
                return class_names(mexpr[e.id], depth + 1)
            if isinstance(e, ast.BinOp) and isinstance(e.op, ast.Add):  # concatenated tuples
                return class_names(e.left, depth) + class_names(e.right, depth)
            d_ = dotted(e)
            if not d_:
                raise CannotEval(f"the classes named by `{u(e)[:50]}` cannot be told")
            head = d_.split(".")[0]
            if head in mod.imports and mod.imports[head] != head:
                d_ = mod.imports[head] + d_[len(head):]
            return [d_]

        def catches(h, x):
            names = class_names(h.type)
            if any(n_ == x.cls for n_ in names):
                return True
            if not all(hier.known(n_) for n_ in names):
                raise CannotEval(f"line {h.lineno}: whether `except {u(h.type)[:50]}` takes a {x.cls} cannot be told (class outside the parsed hierarchies)")
            if not hier.known(x.cls):  # a class of the package / an unparsed library: an Exception subclass as far as the builtin handlers are concerned
                return any(hier.resolve_alias(n_) in ("Exception", "BaseException") for n_ in names)
            return hier.catches(names, x.cls)

        loops = [n for n in walk_body(fn) if isinstance(n, ast.For) and any(any(x is c for c in tcalls) for x in ast.walk(n))]
        self.iterations = []  # (for loop around a transfer call, CountedLines over the items it was started with): how far each run of the loop got

        def evalf(e, env_):
            for l_ in loops:
                if e is l_.iter:
                    v = evalf0(e, env_)
                    if not isinstance(v, (list, tuple, range)):
                        raise CannotEval(f"iteration over `{u(e)[:40]}`")
                    self.iterations.append((l_, CountedLines(v)))
                    return self.iterations[-1][1]
            return evalf0(e, env_)

        def evalf0(e, env_):
            if any(e is c for c in tcalls):
                if len(self.calls) >= 1000:
                    raise Unbounded()
                got = {}
                for p_, a_ in source.bind_args(e, callee).items():
                    try:
                        got[p_] = ev(a_, env_)
                    except CannotEval:
                        got[p_] = CannotEval
                self.calls.append(got)
                o = script[len(self.calls) - 1] if len(self.calls) <= len(script) else rest
                if o is None:
                    return self.result
                self.raised.append(SimRaise(o, e))
                raise self.raised[-1]
            if any(any(x is c for c in tcalls) for x in ast.walk(e)):
                raise CannotEval(f"the transfer's result is used inside `{u(e)[:50]}`")
            if isinstance(e, ast.Call):
                d_ = dotted(e.func) or ""
                try:
                    f_ = ev(e.func, env_)
                except CannotEval:
                    f_ = None
                if d_ in ("range", "enumerate", "reversed") and e.args and not e.keywords:  # the iteration idioms of a retry loop
                    vals = [evalf0(a_, env_) for a_ in e.args]
                    try:
                        return range(*vals) if d_ == "range" else list(enumerate(*vals)) if d_ == "enumerate" else list(reversed(*vals))
                    except (TypeError, ValueError) as x:
                        raise CannotEval(f"{u(e)[:50]}: {type(x).__name__}")
                if d_ == "time.sleep" or (isinstance(f_, Opaque) and f_.text == "time.sleep"):
                    self.pauses.append(len(self.calls))
                    return None
                recv = env_.get(e.func.value.id) if isinstance(e.func, ast.Attribute) and isinstance(e.func.value, ast.Name) else None
                if d_.startswith(_LOGGISH) or is_logging_stmt(ast.Expr(value=e)) or (isinstance(recv, Opaque) and recv.text.startswith(_LOGGISH)):
                    return Opaque(u(e)[:60])  # a logger / a log line: no effect on the attempts
            return ev(e, env_)

        env = dict(env, __catches__=catches)
        try:
            k, v, n = exec_small(fn.body, env, steps=[-20000], evalf=evalf)
            self.end = (k, as_raised(v, n) if k == "raise" else v)
        except SimRaise as x:
            self.end = ("raise", x)

    def text(self):
        k, v = self.end
        return f"raises {v.cls.split('.')[-1]}" if k == "raise" else "returns the transfer's result" if v is self.result else f"returns {v!r}" if k == "return" else "returns None (falls off the end)"


def as_raised(exc, node):
    """the SimRaise for a raise statement that ended the interpreted function outside any try statement."""
    d_ = None if exc is None else dotted(exc.func) if isinstance(exc, ast.Call) else dotted(exc)
    if not d_:
        raise CannotEval(f"line {getattr(node, 'lineno', '?')}: the class of `{u(node)[:50]}` cannot be told")
    return SimRaise(d_, node)


def retry_worlds(chk, rid, mod, fn, callee, tcalls, env, reps):
    """the retry obligations of O14.2, decided on what download_http DOES per world (which attempts fail, and with which class) instead of on the spelling of its loop: the budget = the
    number of attempts made when every attempt is cut off; the error of the last attempt reaches the caller; a cut-off attempt is followed by the next one, which hands back the
    transfer's result; every other failure reaches the caller at once; every attempt gets the same url / path / declared size. A loop over range(N + 1) with a re-raise at the last
    index, N tolerated attempts followed by a last one outside the try, a while loop with a counter, ... all read the same."""
    from sa.exc import Hierarchy

    hier = getattr(chk.repo, "_c14_hier", None)
    if hier is None:
        hier = chk.repo._c14_hier = Hierarchy()
    site = source.enclosing(tcalls[0], (ast.For, ast.While)) or source.enclosing_stmt(tcalls[0])
    trys = [t_ for t_ in (source.enclosing(c, ast.Try) for c in tcalls) if t_ is not None and any(x is t_ for x in walk_body(fn))]
    hsite = trys[0].handlers[0] if trys and trys[0].handlers else site

    def play(script, rest):
        return TransferPlay(mod, fn, callee, tcalls, env, hier, script, rest)

    try:
        cut = {c_: play([], c_) for c_ in _RETRIED}
    except Unbounded:
        chk.ob(rid, "range(HTTP_DOWNLOAD_RETRIES + 1)", False, site, "more than 1000 attempts are made when every attempt is cut off: the transfer is retried (practically) forever")
        return
    except CannotEval as e:
        chk.unknown(rid, f"download_http: what it does when every attempt of the transfer is cut off cannot be evaluated: {e}", site)
        return
    budget = {c_: len(p_.calls) for c_, p_ in cut.items()}
    attempts = min(budget.values())
    ok = 2 <= attempts < 1000
    chk.ob(rid, "range(HTTP_DOWNLOAD_RETRIES + 1)", ok, site,
           "; ".join(f"{n_} attempt(s) when every attempt ends in {c_.split('.')[-1]}" for c_, n_ in budget.items()) + ("" if ok else " — the transfer is not retried at all"))
    chk.ob(rid, "retry constant is a positive integer", ok and attempts - 1 > 0, site, f"{attempts - 1} retry(ies), {len(cut[_RETRIED[0]].pauses)} pause(s)")
    # the error of the LAST attempt reaches the caller (re-raised, never caught, or wrapped into another exception: an explicit error either way), not a `return None` / a fall off the end
    wrong = [f"every attempt ends in {c_.split('.')[-1]}: after {len(p_.calls)} attempt(s) download_http {p_.text()} — the error of the last attempt is swallowed"
             for c_, p_ in cut.items() if p_.end[0] != "raise"]
    chk.ob(rid, "re-raise on the last index (before anything else)", not wrong, hsite, "; ".join(wrong[:2]))
    # ... and it is the error of the last attempt the loop PROVIDES for: a for loop around the transfer is left, when every attempt is cut off, only after its last item (the budget its
    # header declares is used up; a re-raise one index early loses an attempt)
    lost = [(l_, f"every attempt ends in {c_.split('.')[-1]}: the loop over `{u(l_.iter)[:50]}` ({len(it_)} items) is left after item {it_.taken} — {len(it_) - it_.taken} attempt(s) of the budget are lost")
            for c_, p_ in cut.items() for l_, it_ in p_.iterations if it_.taken < len(it_)]
    if any(p_.iterations for p_ in cut.values()):
        chk.ob(rid, "every attempt the retry loop provides for is made", not lost, lost[0][0] if lost else cut[_RETRIED[0]].iterations[0][0], "; ".join(d_ for _, d_ in lost[:2]))
    plays = list(cut.values())
    try:
        # k cut-off attempts, then one that succeeds: attempt k + 1 is made and its result handed back
        wrong, lost = [], []
        for c_ in _RETRIED:
            for k in sorted({0, 1, max(attempts - 1, 0)}):
                if k and not ok:
                    continue
                p_ = play([c_] * k + [None], None)
                plays.append(p_)
                if len(p_.calls) != k + 1:
                    wrong.append(f"{k} attempt(s) end in {c_.split('.')[-1]}, the next one would succeed: {len(p_.calls)} attempt(s) made, download_http {p_.text()} — no further attempt")
                elif p_.end[0] == "raise":
                    wrong.append(f"attempt {k + 1} succeeds after {k} x {c_.split('.')[-1]}: download_http {p_.text()}")
                elif p_.end[1] is not p_.result:
                    lost.append(f"attempt {k + 1} succeeds: download_http {p_.text()}")
        if ok:
            chk.ob(rid, "a cut-off attempt is followed by the next one", not wrong, hsite, "; ".join(wrong[:2]))
        chk.ob(rid, "attempt returns the transfer's result", not lost and not (wrong and not ok), source.enclosing_stmt(tcalls[0]),
               "; ".join((lost + wrong)[:2]) + ("" if not lost else " — the size reported by the transfer is discarded: an undeclared size is never verified against Content-Length"))
        # any other failure of the first attempt reaches the caller at once (the next attempt would succeed: a retry is visible as a second call)
        wrong = []
        for c_ in _NOT_RETRIED:
            p_ = play([c_, None], None)
            plays.append(p_)
            if not (len(p_.calls) == 1 and p_.end[0] == "raise"):
                wrong.append(f"{c_}: {len(p_.calls)} attempt(s), download_http {p_.text()}")
        chk.ob(rid, "retry only for ProtocolError / ReadTimeoutError", not wrong, hsite, "; ".join(wrong[:3]))
    except Unbounded:
        chk.ob(rid, "retry only for ProtocolError / ReadTimeoutError", False, site, "more than 1000 attempts")
    except CannotEval as e:
        chk.unknown(rid, f"download_http: a world of the retry protocol cannot be evaluated: {e}", site)
    # every attempt of every world was handed download_http's own url / path / declared size
    first3 = params(callee, 3)[:3]
    seen = [[c.get(p_, CannotEval) for p_ in first3] for p_ in plays for c in p_.calls]
    if any(v is CannotEval for c in seen for v in c):
        chk.unknown(rid, "download_http: the url / path / size arguments of a transfer attempt cannot be evaluated", source.enclosing_stmt(tcalls[0]))
    else:
        bad = [c for c in seen if c != list(reps)]
        chk.ob(rid, "the same url / path / expected size are used on every attempt", bool(seen) and not bad, source.enclosing_stmt(tcalls[0]),
               "" if not bad else f"an attempt is handed {bad[0]!r} instead of {list(reps)!r}")


def verification_contexts(mod, cls, fn, anchor, roles, before=False, always_self=False):
    """Where a check on the values `roles` ({role: local / parameter name in fn}) made after (before=True: before) the call `anchor` can live: fn itself, and every helper — a method of the
    same class called as self.m(...), or a function defined at the top level of the module — that a call statement after (before) the anchor hands one of those values to as a plain
    argument (always_self: every such self.m(...) call statement, whatever it is handed). Except handlers are not looked into.
    -> ([(function, {role: the value's name in that function}, [if statements to look at])], [call statements handed one of the values that cannot be followed])"""
    side = (lambda n: n.lineno < anchor.lineno) if before else (lambda n: n.lineno > anchor.lineno)  # noqa: E731
    in_handler = lambda n: source.enclosing(n, ast.ExceptHandler) is not None and source.enclosing_func(source.enclosing(n, ast.ExceptHandler)) is fn  # noqa: E731
    out = [(fn, dict(roles), [n for n in walk_body(fn) if isinstance(n, ast.If) and side(n) and not in_handler(n)])]
    opaque = []
    methods = mod.methods(cls) if cls is not None else {}
    helpers = helper_functions(mod)
    for st in walk_body(fn):
        if not (isinstance(st, ast.Expr) and isinstance(st.value, ast.Call) and side(st) and not in_handler(st)) or is_logging_stmt(st):
            continue
        c = st.value
        given = list(c.args) + [k.value for k in c.keywords]
        to_self = isinstance(c.func, ast.Attribute) and is_self_attr(c.func)
        if not any(isinstance(a, ast.Name) and a.id in roles.values() for a in given) and not (always_self and to_self and c.func.attr in methods):
            continue
        h = methods.get(c.func.attr) if to_self else (helpers.get(c.func.id) if isinstance(c.func, ast.Name) else None)
        if h is None:
            if any(isinstance(a, ast.Name) and a.id in roles.values() for a in given) and not (dotted(c.func) or "").startswith(("console.", "os.", "io.ensure_dir", "time.")):
                opaque.append(c)
            continue
        b = source.bind_args(c, h)
        out.append((h, {r: p_ for r, nm in roles.items() for p_, a in b.items() if isinstance(a, ast.Name) and a.id == nm}, [n for n in walk_body(h) if isinstance(n, ast.If)]))
    return out, opaque


def post_checks(chk, rid, mod, cls, fn, anchor, path, exp, inst_missing, inst_size, missing_pats):
    """the two verifications that follow the call `anchor` (a transfer / a decompression) in the method fn: a raise whose only explicit condition is 'the file `path` is not there', and
    the comparison of the declared size `exp` with os.path.getsize(path) that raises exactly for a mismatch. They are looked for in fn and in the helpers fn hands the path / the size to
    after the anchor; found nowhere although everything could be followed = the verification is absent (falsified); an argument handed to code that cannot be followed = not recognised."""
    ctxs, opaque = verification_contexts(mod, cls, fn, anchor, {"path": path, "exp": exp})
    # (1) existence
    hit = None
    for f_, names, ifs in ctxs:
        if "path" not in names:
            continue
        pats = [p_.format(p=names["path"]) for p_ in missing_pats]
        ex = [x for n in ifs for x in ast.walk(n) if isinstance(x, ast.Raise) and len(pat.fact_nodes(x, path_sensitive=False)) == 1 and pat.is_(pat.fact_nodes(x, path_sensitive=False)[0], *pats)]
        if ex:
            hit = (f_, ex[0])
            break
    if hit is not None:
        gf = cfg_of(hit[0])
        chk.ob(rid, inst_missing, raises_on_all_paths(gf, [gf.node_of(hit[1])]), hit[1], "")
    elif opaque:
        chk.unknown(rid, f"{fn.name}: no test for the missing file `{path}` in the method itself and `{short(opaque[0], 60)}` cannot be followed", opaque[0])
    else:
        chk.ob(rid, inst_missing, False, fn, f"no raise under `not os.path.isfile({path})` after the call (the method and the helpers it hands the path to were searched)")
    # (2) size
    res = None
    for f_, names, ifs in ctxs:
        if "path" in names and "exp" in names:
            S, ok, detail = size_verification(f_, cfg_of(f_), ifs, names["path"], names["exp"])
            if S is not None:
                res = (S, ok, detail)
                break
    if res is not None:
        chk.ob(rid, inst_size, res[1], res[0], res[2])
    elif opaque:
        chk.unknown(rid, f"{fn.name}: no comparison of the declared size `{exp}` in the method itself and `{short(opaque[0], 60)}` cannot be followed", opaque[0])
    else:
        chk.ob(rid, inst_size, False, fn, f"no test compares `{exp}` with the size on disk (the method and the helpers it hands the path and the size to were searched)")


_STR_METHODS = ("removesuffix", "removeprefix", "count", "find", "rfind", "rpartition", "join", "endswith", "startswith")


def ev_str(e, env):
    """minieval.ev extended by what path-splitting code needs: slices of strings / sequences, the pure str methods removesuffix / removeprefix / count / find / rfind / rpartition / join
    (endswith / startswith also with a tuple of suffixes), the pure library functions os.path.splitext / basename / dirname applied to a string (library code on a representative
    value; no repository code runs) and comprehensions whose element / filter uses any of these. Such sub-expressions are reduced to their values bottom-up, the rest is minieval; one
    that cannot be reduced stays as it is (it only matters if the evaluation reaches it). CannotEval for anything else."""
    import os.path as osp

    def const(v, at):
        return ast.copy_location(ast.Constant(value=v), at)

    class F(ast.NodeTransformer):
        def visit_Subscript(self, n):
            self.generic_visit(n)
            if isinstance(n.slice, ast.Slice):
                try:
                    v = ev(n.value, env)
                    lo, hi, st = (None if x is None else ev(x, env) for x in (n.slice.lower, n.slice.upper, n.slice.step))
                except CannotEval:
                    return n
                if isinstance(v, (str, list, tuple)) and all(x is None or (isinstance(x, int) and not isinstance(x, bool)) for x in (lo, hi, st)) and st != 0:
                    return const(v[lo:hi:st], n)
            return n

        def visit_Call(self, n):
            self.generic_visit(n)
            d = dotted(n.func)
            try:
                if d in ("os.path.splitext", "os.path.basename", "os.path.dirname") and len(n.args) == 1 and not n.keywords:
                    v = ev(n.args[0], env)
                    if isinstance(v, str):
                        return const(getattr(osp, d.rsplit(".", 1)[1])(v), n)
                elif isinstance(n.func, ast.Attribute) and n.func.attr in _STR_METHODS and not n.keywords and 1 <= len(n.args) <= 3:
                    recv = ev(n.func.value, env)
                    vals = [ev(a_, env) for a_ in n.args]
                    if n.func.attr == "join":
                        vals = [list(vals[0])] if len(vals) == 1 and isinstance(vals[0], (list, tuple)) and all(isinstance(x, str) for x in vals[0]) else None
                    elif n.func.attr in ("endswith", "startswith"):
                        vals = vals if isinstance(vals[0], (str, tuple)) and all(isinstance(x, str) for x in (vals[0] if isinstance(vals[0], tuple) else [vals[0]])) and all(isinstance(x, int) for x in vals[1:]) else None
                    elif not (isinstance(vals[0], str) and all(isinstance(x, int) and not isinstance(x, bool) for x in vals[1:])):
                        vals = None
                    if isinstance(recv, str) and vals is not None:
                        r = getattr(recv, n.func.attr)(*vals)
                        return const(list(r) if isinstance(r, tuple) else r, n)
            except (CannotEval, TypeError, ValueError):
                pass
            return n

        def _comp(self, n):
            # the element / filters are evaluated once per element with the comprehension's variables bound (nothing inside is reduced before that)
            out = []

            def rec(i, env_):
                if i == len(n.generators):
                    out.append(ev_str(n.elt, env_))
                    return
                g = n.generators[i]
                it = ev_str(g.iter, env_)
                if g.is_async or not isinstance(it, (list, tuple, set, frozenset, str, dict, range)):
                    raise CannotEval(f"{u(n)[:60]}: iterable")
                for v in it:
                    env2 = dict(env_)
                    if isinstance(g.target, ast.Name):
                        env2[g.target.id] = v
                    elif isinstance(g.target, ast.Tuple) and all(isinstance(t, ast.Name) for t in g.target.elts) and isinstance(v, (list, tuple)) and len(v) == len(g.target.elts):
                        env2.update({t.id: x for t, x in zip(g.target.elts, v)})
                    else:
                        raise CannotEval(f"{u(n)[:60]}: target")
                    if all(ev_str(c, env2) for c in g.ifs):
                        rec(i + 1, env2)

            try:
                rec(0, dict(env))
            except CannotEval:
                return n
            return const(set(out) if isinstance(n, ast.SetComp) else out, n)

        visit_ListComp = visit_GeneratorExp = visit_SetComp = _comp

    return ev(F().visit(source.clone(e)), env)


def unrolled(stmts):
    """the statement list with every `for <name> in (<literal>, ...):` loop (no else / break / continue) replaced by one copy of its body per element, the loop variable replaced by
    the element — a search loop over a small literal table reads like the if-chain it abbreviates. Copies are re-parsed (analysed nodes are never deep-copied)."""
    out = []
    for st in stmts:
        if isinstance(st, ast.For) and isinstance(st.target, ast.Name) and isinstance(st.iter, (ast.Tuple, ast.List)) and not st.orelse and len(st.iter.elts) <= 16 \
                and all(isinstance(e_, ast.Constant) for e_ in st.iter.elts) and not any(isinstance(x, (ast.Break, ast.Continue)) for b_ in st.body for x in ast.walk(b_)):
            var = st.target.id

            class R(ast.NodeTransformer):
                def __init__(self, value):
                    self.value = value

                def visit_Name(self, n):
                    return ast.copy_location(ast.Constant(value=self.value), n) if n.id == var and isinstance(n.ctx, ast.Load) else n

            for e_ in st.iter.elts:
                body = ast.parse("\n".join(ast.unparse(b_) for b_ in st.body)).body
                out += unrolled([ast.fix_missing_locations(R(e_.value).visit(b_)) for b_ in body])
        else:
            out.append(st)
    return out


def own_params(f):
    ps = params_of(f)
    return ps[1:] if ps and ps[0] in ("self", "cls") else ps


class TableRoles:
    """Roles of io.FileOffsetTable, derived from its code: T = the attribute whose value __enter__ opens, D = the attribute holding the data file's path, the mode the file is opened with,
    the constructor's parameter -> attribute map and the factories (name -> (function, {attribute: expression over the factory's parameters})). `final_expr(d)` is the name under which
    the READING factory looks for the table of the data file denoted by the expression d — the name readers (skip_lines) depend on."""

    def __init__(self, io_mod):
        self.mod = io_mod
        self.cls = FT = io_mod.cls("FileOffsetTable")
        ent, self.init = method(io_mod, FT, "__enter__"), method(io_mod, FT, "__init__")
        opens = [n for n in walk_body(ent) if isinstance(n, ast.Call) and dotted(n.func) == "open" and n.args and is_self_attr(n.args[0])]
        if len(opens) != 1:
            raise AnchorMissing("FileOffsetTable.__enter__: the open(self.<path attribute>, <mode>) call")
        self.T = opens[0].args[0].attr
        self.mode = arg_of(opens[0], 1, "mode")
        ip = params(self.init, 3)
        self.a_of_p = {n.value.id: n.targets[0].attr for n in walk_body(self.init)
                       if isinstance(n, ast.Assign) and len(n.targets) == 1 and is_self_attr(n.targets[0]) and isinstance(n.value, ast.Name) and n.value.id in ip[1:]}
        if self.T not in self.a_of_p.values() or ip[1] not in self.a_of_p:
            raise AnchorMissing(f"FileOffsetTable.__init__: parameters stored in self.{self.T} / the data file attribute")
        self.D = self.a_of_p[ip[1]]
        self.factories = {}
        for name, f in io_mod.methods(FT).items():
            for r in [n for n in walk_body(f) if isinstance(n, ast.Return) and n.value is not None]:
                v = returned(r)
                if isinstance(v, ast.Call) and dotted(v.func) in ("cls", FT.name):
                    self.factories[name] = (f, self.fields(v))
        readers = [(f, fl) for f, fl in self.factories.values() if not self.writes(fl)]
        if not readers:
            raise AnchorMissing("FileOffsetTable: a factory that opens the table for reading")
        self._readers = readers

    def fields(self, ctor_call):
        """{attribute: argument expression} of one FileOffsetTable(...) / cls(...) call."""
        return {self.a_of_p[p]: e for p, e in source.bind_args(ctor_call, self.init).items() if p in self.a_of_p}

    def writes(self, fields) -> bool:
        """the table object built with these constructor arguments opens its file for writing."""
        m = self.mode
        if m is not None and is_self_attr(m):
            m = fields.get(m.attr)
        if m is None:
            return False  # open() without a mode reads
        if isinstance(m, ast.Constant) and isinstance(m.value, str):
            return any(c in m.value for c in "wax+")
        raise AnchorMissing(f"FileOffsetTable: the open mode `{u(m)}` is not a string constant")

    def final_expr(self, data_expr):
        f, fl = self._readers[0]
        ps = own_params(f)
        if len(ps) != 1 or self.T not in fl:
            raise AnchorMissing("FileOffsetTable: reading factory with one data-file parameter")
        return subst(fl[self.T], {ps[0]: data_expr})

    def final(self, data_path=_REP):
        """the table's final name for a concrete data-file path; every reading factory must agree on it."""
        vals = set()
        for f, fl in self._readers:
            ps = own_params(f)
            if len(ps) != 1 or self.T not in fl:
                raise AnchorMissing("FileOffsetTable: reading factory with one data-file parameter")
            try:
                vals.add(ev(fl[self.T], {ps[0]: data_path}))
            except CannotEval as x:
                raise AnchorMissing(f"FileOffsetTable.{f.name}: the table name `{u(fl[self.T])}` cannot be evaluated: {x}")
        if len(vals) != 1 or not all(isinstance(v, str) for v in vals):
            raise AnchorMissing(f"FileOffsetTable: the reading factories disagree on the table's name: {sorted(map(str, vals))}")
        return vals.pop()


class PathFlow:
    """The values a path expression can have at a statement of `fn`, as expressions over fn's parameters: single-assignment locals are replaced by their definitions (resolved where
    they are defined), reads of <X>.<T> by the values of the assignments to that attribute that REACH the statement (reaching definitions on the CFG, exception edges included; the value
    the object was created with is the first definition). Nothing is executed; the resulting expressions are evaluated by minieval on a representative data-file path."""

    def __init__(self, fn, X, T, created, init_expr):
        self.fn, self.X, self.T = fn, X, T
        self.g = cfg_of(fn)
        self.defs = local_defs(fn)
        self.def_stmt = {n.targets[0].id: n for n in walk_body(fn) if isinstance(n, ast.Assign) and len(n.targets) == 1 and isinstance(n.targets[0], ast.Name) and n.targets[0].id in self.defs}
        self.adefs = [(created, init_expr)] + [(n, n.value) for n in walk_body(fn) if isinstance(n, ast.Assign) and len(n.targets) == 1 and self.is_attr(n.targets[0])]

    def is_attr(self, n):
        return self.X is not None and isinstance(n, ast.Attribute) and n.attr == self.T and isinstance(n.value, ast.Name) and n.value.id == self.X

    def opaque_stores(self):
        """stores to <X>.<T> this model does not follow (augmented / tuple / multiple targets, setattr): the caller reports the function as not analysable."""
        out = []
        for n in walk_body(self.fn):
            if isinstance(n, ast.AugAssign) and self.is_attr(n.target):
                out.append(n)
            elif isinstance(n, ast.Assign) and not (len(n.targets) == 1 and self.is_attr(n.targets[0])) and any(self.is_attr(x) and isinstance(x.ctx, ast.Store) for t in n.targets for x in ast.walk(t)):
                out.append(n)
            elif isinstance(n, ast.Call) and dotted(n.func) == "setattr" and n.args and isinstance(n.args[0], ast.Name) and n.args[0].id == self.X:
                out.append(n)
        return out

    def nodes(self, stmt):
        ns = [n for n in self.g.by_ast.get(id(stmt), []) if n.kind not in ("with_exit", "finally_entry", "join")]
        if not ns:
            ns = self.g.nodes_of(stmt)
        return ns

    def reaching(self, stmt):
        st = stmt if isinstance(stmt, ast.stmt) else source.enclosing_stmt(stmt)
        tn = self.nodes(st)
        out = []
        for s, v in self.adefs:
            if s is st:
                continue
            others = [n for s2, _ in self.adefs if s2 is not s for n in self.nodes(s2)]
            if any(self.g.path_exists(d, t, avoid=[o for o in others if o.id != t.id]) for d in self.nodes(s) for t in tn if d.id != t.id):
                out.append((s, v))
        return out

    def resolve(self, e, stmt, depth=0):
        """the alternatives for the value of expression e read at statement stmt, over parameters only (CannotEval when a chain is too deep / nothing reaches)."""
        if depth > 8:
            raise CannotEval(f"definition chain of `{u(e)[:50]}` is too deep")
        alts = [source.clone(e)]
        if any(self.is_attr(n) and isinstance(n.ctx, ast.Load) for n in ast.walk(e)):
            vals = [r for s, v in self.reaching(stmt) for r in self.resolve(v, s, depth + 1)]
            if not vals:
                raise CannotEval(f"no assignment of {self.X}.{self.T} reaches line {getattr(stmt, 'lineno', '?')}")
            flow = self

            def put(a, val):
                class R(ast.NodeTransformer):
                    def visit_Attribute(self, n):
                        return source.clone(val) if flow.is_attr(n) else self.generic_visit(n)

                return R().visit(source.clone(a))

            alts = [put(a, val) for a in alts for val in vals]
        names = sorted({n.id for n in ast.walk(e) if isinstance(n, ast.Name) and isinstance(n.ctx, ast.Load) and n.id in self.defs and n.id != self.X})
        for nm in names:
            vals = self.resolve(self.defs[nm], self.def_stmt[nm], depth + 1)
            alts = [subst(a, {nm: val}) for a in alts for val in vals]
        if len(alts) > 16:
            raise CannotEval(f"too many alternatives for `{u(e)[:50]}`")
        return alts

    def values(self, e, stmt, env):
        out = set()
        for a in self.resolve(e, stmt):
            v = ev(a, dict(env))
            if not isinstance(v, str):
                raise CannotEval(f"`{u(e)[:50]}` does not evaluate to a path string")
            out.add(v)
        return out


def calls_named(repo, name, mention=None):
    """every call in the package whose callee's last name component is `name` (who-may-call by name) — only the modules whose text mentions `mention` (default: the name) are parsed."""
    out = []
    for p in repo.package_files():
        if (mention or name) in repo.text(p):
            out += [n for n in ast.walk(repo.module(p).tree) if isinstance(n, ast.Call) and last_attr(n.func) == name]
    return out


def writer_sites(repo, roles):
    """[(call, {attribute: expression in the caller's terms})]: every call in the package, outside FileOffsetTable itself, that yields a FileOffsetTable opened for WRITING (a writing
    factory, or the constructor with a write mode)."""
    out = []
    FT = roles.cls
    for name, (f, fl) in roles.factories.items():
        if not roles.writes(fl):
            continue
        for c in calls_named(repo, name):
            d = dotted(c.func) or ""
            if not d.endswith(f"{FT.name}.{name}") or source.enclosing_class(c) is FT:
                continue
            if roles.T not in fl:
                raise AnchorMissing(f"FileOffsetTable.{name}: the constructor argument stored in self.{roles.T}")
            b = source.bind_args(c, f)
            out.append((c, {a: subst(e, b) for a, e in fl.items()}))
    for c in calls_named(repo, FT.name):
        if source.enclosing_class(c) is FT:
            continue
        fl = roles.fields(c)
        if roles.T in fl and roles.writes(fl):
            out.append((c, fl))
    return out


def offset_table_publication(chk, repo, io_mod, rid="O14.8"):
    """F24: typestate of the offset table's FINAL name — the same protocol as the download (O14.1): written under another name, produced by one rename after the writer is done."""
    chk.rule(rid, "offset-table build (io.prepare_file_offset_table and any other holder of a write-mode FileOffsetTable): the file is written under a temporary name that differs from the name "
                  "the readers and the validity test use; that final name is produced only by rename(temporary, final), which runs only after the writing `with` block has completed normally "
                  "(file closed, every line counted) and on every such path; no other code opens an offset-table name for writing", 5,
             "an interrupted build (Ctrl-C, kill, UnicodeDecodeError on a truncated document file) leaves an unfinished table under the final name; it is newer than the data file, so the next run "
             "takes it as valid, does not rebuild it and skips the line-count check: a truncated corpus is reported as ready (size undeclared / test mode)")
    roles = TableRoles(io_mod)
    final_rep = roles.final()
    sites = writer_sites(repo, roles)
    if not sites:
        raise AnchorMissing("no code in the package obtains a FileOffsetTable opened for writing")
    analysed = 0
    for call, fields in sites:
        fn = source.enclosing_func(call)
        if fn is None:
            chk.unknown(rid, "a write-mode FileOffsetTable is created outside a function", call)
            continue
        mod = source.module_of(call)
        chk.use(mod)
        where = f"{mod.relpath}:{source.qualname(fn)}"
        par = source.parent(call)
        X, created = None, None
        if isinstance(par, ast.Assign) and len(par.targets) == 1 and isinstance(par.targets[0], ast.Name) and par.value is call:
            X, created = par.targets[0].id, par
        elif isinstance(par, ast.withitem):
            created = source.enclosing_stmt(call)
        else:
            chk.unknown(rid, f"{where}: the write-mode FileOffsetTable is neither bound to a local nor used directly as a context manager (its use cannot be followed)", call)
            continue
        if X is not None and X not in local_defs(fn):
            chk.unknown(rid, f"{where}: the local `{X}` holding the write-mode FileOffsetTable is bound more than once", call)
            continue
        flow = PathFlow(fn, X, roles.T, created, fields[roles.T])
        # the object must stay in this function: every read of the local is an attribute access / method call on it or the context expression of a `with`
        if X is not None:
            esc = [n for n in walk_body(fn) if isinstance(n, ast.Name) and n.id == X and isinstance(n.ctx, ast.Load) and not isinstance(source.parent(n), (ast.Attribute, ast.withitem))]
            if esc or flow.opaque_stores():
                chk.unknown(rid, f"{where}: the write-mode FileOffsetTable `{X}` escapes (argument / return / alias) or its path attribute is stored in a form that is not followed", (esc or flow.opaque_stores())[0])
                continue
            withs = [n for n in walk_body(fn) if isinstance(n, (ast.With, ast.AsyncWith)) and any(isinstance(it.context_expr, ast.Name) and it.context_expr.id == X for it in n.items)]
            als = {it.optional_vars.id for w in withs for it in w.items if isinstance(it.context_expr, ast.Name) and it.context_expr.id == X and isinstance(it.optional_vars, ast.Name)}
            if any(isinstance(n, ast.Call) and isinstance(n.func, ast.Attribute) and n.func.attr == "__enter__" and u(n.func.value) == X for n in walk_body(fn)) \
                    or any(isinstance(n, ast.Attribute) and n.attr == roles.T and isinstance(n.ctx, ast.Store) and isinstance(n.value, ast.Name) and n.value.id in als for n in walk_body(fn)):
                chk.unknown(rid, f"{where}: `{X}.__enter__()` is called directly, or the path attribute is stored through the `with ... as` alias", call)
                continue
        else:
            withs = [created]
        if not withs:
            continue  # created for writing but never opened here (e.g. only asked whether it is valid): nothing is written through it
        analysed += 1
        g = flow.g
        # the data file the table belongs to, and hence the final name, in this function's terms; evaluated with the data-file parameter(s) := the representative path
        env = {p: _REP for p in params_of(fn)}
        try:
            final = flow.values(roles.final_expr(fields[roles.D]), created, env) if roles.D in fields else {final_rep}
            if len(final) != 1:
                raise CannotEval(f"final name not unique: {sorted(map(str, final))}")
            final = final.pop()
            attr = expr(f"{X}.{roles.T}") if X is not None else fields[roles.T]
            written = set()
            for w in withs:
                written |= flow.values(attr, w, env)
            ren = []
            # renames made by the function itself or by a helper function of the module it calls (arguments in this function's terms, position = the call in this function)
            for c_, a_, k_, r in [t_ for t_ in calls_through(mod, fn) if dotted(t_[0].func) in _RENAMES]:
                s_, d_ = (a_[0] if len(a_) > 0 else k_.get("src")), (a_[1] if len(a_) > 1 else k_.get("dst"))
                if s_ is None or d_ is None or isinstance(s_, ast.Starred) or isinstance(d_, ast.Starred):
                    raise CannotEval(f"arguments of `{short(c_, 60)}`")
                ren.append((r, flow.values(s_, r, env), flow.values(d_, r, env)))
        except CannotEval as x:
            chk.unknown(rid, f"{where}: a path expression of the offset-table build cannot be evaluated: {x}", call)
            continue
        ok = bool(written) and final not in written
        chk.ob(rid, "the table is written under a temporary name, never under its final name", ok, withs[0],
               f"opened for writing: {sorted(map(str, written))}; final name (readers, validity test): {final}" + ("" if ok else " — an interrupted build leaves an unfinished table that the next run trusts"),
               key=f"{where}:offset-table-written-under-a-temporary-name")
        pub = [(r, s_, d_) for r, s_, d_ in ren if final in d_]
        done = [n for w in withs for n in g.by_ast.get(id(w), []) if n.kind == "with_exit"]
        ok = bool(pub) and all(d_ == {final} and s_ and s_ <= written and final not in s_ for _, s_, d_ in pub)
        chk.ob(rid, "the final name is produced by rename(temporary, final)", ok, pub[0][0] if pub else withs[0],
               "; ".join(f"{short(r, 70)}: {sorted(map(str, s_))} -> {sorted(map(str, d_))}" for r, s_, d_ in pub) if pub else "no rename onto the final name: the table is written in place",
               key=f"{where}:offset-table-published-by-rename")
        ok = bool(pub) and bool(done) and all(g.dominated_by_nodes(n, done) for r, _, _ in pub for n in flow.nodes(source.enclosing_stmt(r)))
        chk.ob(rid, "the rename runs only after the writing block has completed normally (table complete and closed)", ok, pub[0][0] if pub else withs[0],
               "" if ok else ("the rename can be reached while the table is still being written, or after the build failed" if pub else "no rename onto the final name"),
               key=f"{where}:offset-table-rename-after-complete-build")
        ok = bool(pub) and bool(done) and all(g.must_pass(n, [x for r, _, _ in pub for x in flow.nodes(source.enclosing_stmt(r))], normal_only=True) for w in withs for n in flow.nodes(w))
        chk.ob(rid, "a completed build is published on every normal path to the return", ok, pub[0][0] if pub else withs[0],
               "" if ok else ("preparation can return without an offset table under the final name" if pub else "no rename onto the final name"), key=f"{where}:offset-table-published-on-every-normal-path")
    if not analysed and not any(m.startswith(rid + ":") for m in chk.inconclusive):
        raise AnchorMissing("no function opens a write-mode FileOffsetTable in a `with` block")
    # no other write-open of an offset-table name (the name's suffix is derived from the reading factory, not spelled here)
    suffix = final_rep[len(_REP):] if final_rep.startswith(_REP) and len(final_rep) > len(_REP) else None
    if suffix is None:
        raise AnchorMissing(f"offset table name `{final_rep}` is not <data file><suffix>")
    bad = []
    for c in calls_named(repo, "open", mention=suffix):
        m_ = arg_of(c, 1, "mode")
        if c.args and isinstance(m_, ast.Constant) and isinstance(m_.value, str) and any(ch in m_.value for ch in "wax+") \
                and any(isinstance(x, ast.Constant) and isinstance(x.value, str) and x.value.endswith(suffix) for x in ast.walk(c.args[0])):
            bad.append(c)
    chk.ob(rid, f"no code opens a `*{suffix}` name for writing directly (FileOffsetTable.__enter__ is the only writer)", not bad, bad[0] if bad else roles.cls,
           short(bad[0], 90) if bad else "", key=f"{io_mod.relpath}:offset-table:direct-write-open")
    return roles


def io_qualname(mod, d):
    """the qualified name inside esrally/utils/io.py that the dotted callee text d denotes in module `mod` (through its imports), or None."""
    if not d:
        return None
    head, _, rest = d.partition(".")
    full = mod.imports.get(head)
    if mod.relpath == _I and full is None:
        return d
    if full is None:
        return None
    full = full + ("." + rest if rest else "")
    pre = _I[:-3].replace("/", ".") + "."
    return full[len(pre):] if full.startswith(pre) else None


def flat_normal(stmts):
    """the statement list as its normal path reads: `try` statements replaced by body + else + finally (`try: os.remove(p) except FileNotFoundError: ...` is its body when the file
    exists), `with contextlib.suppress(...)` blocks by their body."""
    out = []
    for s_ in stmts:
        if isinstance(s_, ast.Try):
            out += flat_normal(s_.body + s_.orelse + s_.finalbody)
        elif isinstance(s_, ast.With) and all(isinstance(it.context_expr, ast.Call) and last_attr(it.context_expr.func) == "suppress" for it in s_.items):
            out += flat_normal(s_.body)
        else:
            out.append(s_)
    return out


_HARMLESS = ("console.", "logging.", "logger.", "self.logger.", "os.path.", "exceptions.", "time.")  # callees that do not touch the file system state the rules are about
_PURE_BUILTINS = ("str", "repr", "len", "print", "format", "int")


class TableInvalidation:
    """Decides ON VALUES which code removes the offset table of a data file — the very name the readers open (roles.final(): derived from the reading factory, not spelled here).
    Everything is evaluated for the world 'the data file is <representative path>, its offset table exists': path expressions by minieval (FileOffsetTable factory / constructor calls
    reduced to records of their evaluated fields, so `FileOffsetTable.read_for_data_file(p).offset_table_path` is a value), existence tests of that name — os.path.exists(<name>),
    Path(<name>).exists(), <table object>.exists() looked through to its returned expression — are true, calls are followed into the functions of io.py / FileOffsetTable and the methods
    of the user's class with the arguments bound to the callee's parameters (positional or keyword; constant arguments and defaults become values there). Verdicts are three-valued:
    True (removes it), False (located, does not), None (cannot be followed) — the callers turn None into 'not recognised', never into a violation."""

    def __init__(self, io_mod, roles, mod, cls=None):
        self.io, self.roles, self.mod, self.cls = io_mod, roles, mod, cls
        self.final = roles.final()
        self.io_defs = {source.qualname(f): f for f in list(io_mod.tree.body) + list(roles.cls.body) if isinstance(f, source.FUNC_TYPES)}
        self.methods = mod.methods(cls) if cls is not None else {}
        self.ft_methods = io_mod.methods(roles.cls)
        self._cache = {}
        self._removers = None

    # -- values ------------------------------------------------------------------------------------------------------------------------------------------------
    def table_fields(self, n, mod):
        """{attribute: expression} when the call n creates a FileOffsetTable (constructor or factory), else None."""
        d = dotted(n.func) or ""
        FT = self.roles.cls.name
        if mod is self.io and (d == "cls" or d.startswith("cls.")):
            qn = FT + d[3:]
        else:
            qn = io_qualname(mod, d)
        if qn == FT:
            return self.roles.fields(n)
        if qn and qn.startswith(FT + ".") and qn[len(FT) + 1:] in self.roles.factories:
            f, fl = self.roles.factories[qn[len(FT) + 1:]]
            b = source.bind_args(n, f)
            return {a_: subst(x, b) for a_, x in fl.items()}
        return None

    def value(self, e, env, mod):
        me = self

        class T(ast.NodeTransformer):
            def visit_Call(self, n):
                self.generic_visit(n)
                try:
                    fl = me.table_fields(n, mod)
                    if fl is not None:
                        return ast.copy_location(ast.Constant(value=Record(**{a_: ev(x, env) for a_, x in fl.items()})), n)
                except (CannotEval, AnchorMissing):
                    pass
                return n

        return ev(T().visit(source.clone(e)), env)

    class Ctx:
        """one function under evaluation: `names` = the locals / parameters that denote the data file (:= the representative path), consts = known values of other names."""

        def __init__(self, inv, mod, fn, names, consts=None, defs=None):
            self.inv, self.mod, self.fn, self.names = inv, mod, fn, set(names)
            self.defs = {k: v for k, v in (local_defs(fn) if defs is None else defs).items() if k not in self.names}
            self.consts = dict(consts or {}, **{n: _REP for n in self.names})

        def inl(self, e):
            return source.inline_node(e, self.defs)

        def val(self, e):
            return self.inv.value(self.inl(e), dict(self.consts), self.mod)

    def ctx(self, mod, fn, names, consts=None, defs=None):
        return TableInvalidation.Ctx(self, mod, fn, names, consts, defs)

    # -- existence tests ---------------------------------------------------------------------------------------------------------------------------------------
    def method_truth(self, obj, name, about, depth=0):
        """truth of the zero-argument FileOffsetTable method `name` on the record obj in the world 'the stale table exists and is at least as new as the data file' — the world in which
        the validity test would accept it; about(path) = whether the file `path` exists there. None: it depends on more than that."""
        m = self.ft_methods.get(name)
        body = [x for x in (m.body if m is not None else []) if not is_logging_stmt(x) and not (isinstance(x, ast.Expr) and isinstance(x.value, ast.Constant))]
        if depth > 2 or len(body) != 1 or not isinstance(body[0], ast.Return) or body[0].value is None:
            return None
        me = self

        class M(ast.NodeTransformer):  # modification times in that world: the table's 5, the data file's 3
            def visit_Call(self, n):
                self.generic_visit(n)
                if dotted(n.func) == "os.path.getmtime" and len(n.args) == 1:
                    try:
                        v = ev(n.args[0], {"self": obj})
                    except CannotEval:
                        return n
                    if v in (me.final, _REP):
                        return ast.copy_location(ast.Constant(value=5 if v == me.final else 3), n)
                return n

        def atom(x):
            if isinstance(x, ast.BoolOp) or (isinstance(x, ast.UnaryOp) and isinstance(x.op, ast.Not)):
                return None
            try:
                if isinstance(x, ast.Call) and dotted(x.func) in _EXISTS and len(x.args) == 1:
                    return about(ev(x.args[0], {"self": obj}))
                if isinstance(x, ast.Call) and is_self_attr(x.func) and not x.args and not x.keywords:
                    return self.method_truth(obj, x.func.attr, about, depth + 1)
                return bool(ev(M().visit(source.clone(x)), {"self": obj}))
            except CannotEval:
                return None

        try:
            return bool_eval(body[0].value, atom)
        except UnknownAtom:
            return None

    class OtherFile(Exception):
        """raised by exists_atom for an existence test of ANOTHER concrete name whose truth the evaluated world does not fix yet."""

    def exists_atom(self, n, ctx, world=None):
        """True when the test n asks whether the offset table of the data file exists (it does, in the evaluated world); an existence test of another concrete name has the truth value
        `world` gives it (OtherFile when it gives none: the caller evaluates both); None for any other test."""
        n = ctx.inl(n)
        if not isinstance(n, ast.Call) or n.keywords:
            return None

        def about(path):
            if path == self.final:
                return True
            if world is None or not isinstance(path, str):
                return None
            if path not in world:
                raise TableInvalidation.OtherFile(path)
            return world[path]

        try:
            if dotted(n.func) in _EXISTS and len(n.args) == 1:
                return about(ctx.val(n.args[0]))
            if isinstance(n.func, ast.Attribute) and not n.args:
                recv = n.func.value
                if isinstance(recv, ast.Call) and last_attr(recv.func) == "Path" and len(recv.args) == 1 and n.func.attr in ("exists", "is_file"):
                    return about(ctx.val(recv.args[0]))
                obj = ctx.val(recv)
                if isinstance(obj, Record):
                    return self.method_truth(obj, n.func.attr, about)
        except CannotEval:
            return None
        return None

    # -- removals ----------------------------------------------------------------------------------------------------------------------------------------------
    def call_removes(self, c, ctx, depth=0):
        """the call c removes the offset table of the data file of ctx: True / False / None (handed the data file, but it cannot be followed)."""
        if not isinstance(c, ast.Call):
            return False
        d = dotted(c.func) or ""
        given = [ctx.inl(a_) for a_ in list(c.args) + [k.value for k in c.keywords] if not isinstance(a_, ast.Starred)]
        handed = any(isinstance(x, ast.Name) and x.id in ctx.names for a_ in given for x in ast.walk(a_))
        unknown = None if handed else False
        if d in _REMOVES:
            try:
                return ctx.val(given[0]) == self.final if len(given) == 1 else unknown
            except CannotEval:
                return unknown
        if isinstance(c.func, ast.Attribute) and c.func.attr == "unlink" and isinstance(c.func.value, ast.Call) and last_attr(c.func.value.func) == "Path" and len(c.func.value.args) == 1:
            try:
                return ctx.val(c.func.value.args[0]) == self.final
            except CannotEval:
                return unknown
        callee = None
        if ctx.mod is self.io and (d.startswith("cls.") or d in self.io_defs or io_qualname(self.io, d) in self.io_defs):
            qn = self.roles.cls.name + d[3:] if d.startswith("cls.") else (d if d in self.io_defs else io_qualname(self.io, d))
            callee = (self.io, self.io_defs.get(qn))
        elif ctx.mod is not self.io and io_qualname(ctx.mod, d) in self.io_defs:
            callee = (self.io, self.io_defs[io_qualname(ctx.mod, d)])
        elif isinstance(c.func, ast.Attribute) and is_self_attr(c.func) and ctx.mod is self.mod and c.func.attr in self.methods:
            callee = (self.mod, self.methods[c.func.attr])
        if callee is None or callee[1] is None:
            return False if d.startswith(_HARMLESS) or d in _PURE_BUILTINS else unknown
        cmod, f = callee
        # role 'the data file' among the callee's parameters: the one whose argument VALUE is the data file's path (a plain name, an alias, an expression); an argument that mentions
        # the data file but cannot be evaluated makes the call opaque, one that evaluates to another path (`<file>.gz`) is simply not the data file
        ps, consts, opaque_arg = [], {}, False
        for p_, a_ in source.bind_args(c, f).items():
            try:
                v_ = ctx.val(a_)
            except CannotEval:
                opaque_arg = opaque_arg or any(isinstance(x, ast.Name) and x.id in ctx.names for x in ast.walk(ctx.inl(a_)))
                continue
            if isinstance(v_, str) and v_ == _REP:
                ps.append(p_)
            else:
                consts[p_] = v_
        if len(ps) != 1:
            return None if opaque_arg or len(ps) > 1 else False
        return self.fn_removes(cmod, f, ps[0], consts, depth + 1)

    def fn_removes(self, mod, f, p, consts=None, depth=0):
        """the function f, called with the data file as parameter p (and the known values `consts` of other parameters; defaults otherwise), completes normally having removed the
        data file's offset table: on every normal path of its control-flow graph, or — `if missing_ok and not os.path.exists(t): return` — on the path evaluated for 'the table exists'."""
        consts = dict(consts or {})
        a = f.args
        pos = a.posonlyargs + a.args
        for x, dv in list(zip(pos[len(pos) - len(a.defaults):], a.defaults)) + [(x, dv) for x, dv in zip(a.kwonlyargs, a.kw_defaults) if dv is not None]:
            if x.arg not in consts and x.arg != p:
                try:
                    consts[x.arg] = ev(dv, {})
                except CannotEval:
                    pass
        key = (id(f), p, repr(sorted(consts.items(), key=lambda kv: kv[0])))
        if key in self._cache:
            return self._cache[key]
        if depth > 3:
            return None
        self._cache[key] = None  # recursion guard
        ctx = self.ctx(mod, f, {p}, consts)
        hits = [n for n in walk_body(f) if isinstance(n, ast.Call) and (n.func is not None) and self.call_removes(n, ctx, depth) is True]
        g = cfg_of(f)
        hn = [x for h in hits for x in g.nodes_of(h)]
        if hn and g.must_pass(g.entry, hn, normal_only=True):
            r = True
        else:
            r = self.stmts_remove(f.body, ctx, depth)
        self._cache[key] = r
        return r

    def stmts_remove(self, stmts, ctx, depth=0):
        """the statement list, evaluated (tables.decide) for 'the table exists', completes normally having removed the table: True / False / None (beyond the evaluator). A test for the
        existence of another file (`if os.path.exists(<file>.offsets): <removal>`) is not fixed by that world: both truth values are evaluated and the table must go in each."""
        def run(world):
            def atom(n, env):
                if isinstance(n, ast.BoolOp) or (isinstance(n, ast.UnaryOp) and isinstance(n.op, ast.Not)):
                    return None
                v = self.exists_atom(n, ctx, world)
                if v is not None:
                    return v
                try:
                    return bool(ctx.val(n))
                except CannotEval:
                    return None

            def on_stmt(s_, env, b):
                return "skip" if is_logging_stmt(s_) else None

            try:
                o = tables.decide(flat_normal(stmts), atom, {}, on_stmt=on_stmt)
            except (tables.Unsupported, UnknownAtom, CannotEval):
                return None
            if o.kind not in ("fallthrough", "return"):
                return False
            res = [self.call_removes(e, ctx, depth) for e in o.effects + ([o.value] if o.value is not None else []) if isinstance(e, ast.Call)]
            return True if any(r is True for r in res) else (None if any(r is None for r in res) else False)

        free = []
        while True:
            try:
                res = [run(dict(zip(free, vals))) for vals in itertools.product([True, False], repeat=len(free))]
                return False if any(r is False for r in res) else (None if any(r is None for r in res) else True)
            except TableInvalidation.OtherFile as x:
                if len(free) >= 3:
                    return None
                free.append(x.args[0])

    def removers(self):
        """{qualified name in io.py: (parameter, def)}: the functions of io.py / FileOffsetTable that remove the offset table of the data file given as that parameter."""
        if self._removers is None:
            self._removers = {}
            for qn, f in self.io_defs.items():
                for p_ in own_params(f):
                    if self.fn_removes(self.io, f, p_) is True:
                        self._removers[qn] = (p_, f)
                        break
        return self._removers


def table_removers(io_mod, roles):
    """{qualified name in io.py: (parameter, def)}: the functions that remove the offset table (the name the readers open) of the data file given as that parameter — decided by
    TableInvalidation.fn_removes (os.remove / os.unlink of an expression that evaluates to the final name, or a call of another such function with the parameter)."""
    return TableInvalidation(io_mod, roles, io_mod).removers()


def recreated_file_invalidates_table(chk, io_mod, ldr, roles, rid="O14.9"):
    """F25: the mtime comparison cannot tell that a table belongs to the document file's predecessor (tarfile restores the archived mtime): whoever (re)creates the file removes the table."""
    chk.rule(rid, "DocumentSetPreparator: every call that (re)creates the document file (decompressing into it, downloading onto it) is followed, on every normal path to the offset-table step, "
                  "by the invalidation of an existing offset table of that file (its removal, or an mtime bump of the new file that makes the validity test reject it) — the table of the file's "
                  "predecessor must not survive, whatever modification time the new file carries", 4,
             "a document re-extracted from an updated .tar / .tar.gz / .tgz / .tar.bz2 archive carries the archived mtime, older than the offset table of its predecessor: the stale table counts "
             "as valid, is not rebuilt, the line count is not checked and bulk clients seek to the old file's offsets (mid-document starts, wrong / duplicated documents)")
    final = roles.final()
    P = ldr.cls("DocumentSetPreparator")
    inv_ = TableInvalidation(io_mod, roles, ldr, P)
    removers = inv_.removers()
    # a function of io.py that is handed a data file and removes a file next to it must remove the name the READERS open: one that removes another name (`<file>.offsets`) leaves the
    # table the readers trust in place. No such function at all (the removal written out at its call sites) is not a finding here: the call sites are decided below / in O14.4
    near = []
    if not removers:
        for qn_, f_ in inv_.io_defs.items():
            for c_ in [x for x in walk_body(f_) if isinstance(x, ast.Call) and dotted(x.func) in _REMOVES and len(x.args) == 1]:
                for p_ in own_params(f_):
                    try:
                        v_ = inv_.ctx(io_mod, f_, {p_}).val(c_.args[0])
                    except CannotEval:
                        continue
                    if isinstance(v_, str) and v_ != final and v_.startswith(_REP) and len(v_) > len(_REP):
                        near.append((qn_, v_))
    chk.ob(rid, "io offers a function that removes the very name the readers open (used for invalidation and after a line-count mismatch)", bool(removers) or not near, roles.cls,
           f"removers: {sorted(removers)}; table name for {_REP}: {final}" + ("" if removers or not near else f" — `{near[0][0]}` removes {near[0][1]} instead")
           + ("" if removers or near else " (io.py has no such function: removals are decided at their call sites)"), key=f"{_I}:offset-table:remover-agrees-with-readers")
    for name in ("prepare_document_set", "prepare_bundled_document_set"):
        f = method(ldr, P, name)
        g = cfg_of(f)
        docv, _, _ = path_roles(f)
        names = {docv}
        for _ in range(3):  # locals that may denote the document file (`target_path = doc_path` in one arm)
            names |= {n.targets[0].id for n in walk_body(f) if isinstance(n, ast.Assign) and len(n.targets) == 1 and isinstance(n.targets[0], ast.Name) and isinstance(n.value, ast.Name) and n.value.id in names}
        ctx = inv_.ctx(ldr, f, names)
        # calls made by the method itself or through helper methods of the class (arguments in the method's own terms; the CFG position is that of the call in the method's own body)
        reach_ = calls_through(ldr, f, cls=P)
        cfo = method(ldr, P, "create_file_offset_table")
        cdoc = params(cfo, 2)[1]
        # ... whose target MAY be the document file: an argument that is — or, followed by data flow (Alternatives: locals, the record / pair a helper method returns), can stand for — it
        alts_ = Alternatives(ldr, P, f, keep=names | {"self"})
        creators = [(c, r_) for c, a_, k_, r_ in reach_ if isinstance(c.func, ast.Attribute) and c.func.attr in ("decompress", "download") and is_self_attr(c.func.value)
                    and any(isinstance(x, ast.Name) and x.id in names for a in list(a_) + list(k_.values()) if not isinstance(a, ast.Starred) for _, x in alts_.of(a))]
        builds = [r_ for c, a_, k_, r_ in reach_ if last_attr(c.func) == "create_file_offset_table" and isinstance(bound_params(a_, k_, cfo).get(cdoc), ast.Name) and bound_params(a_, k_, cfo)[cdoc].id in names]
        if not creators or not builds:
            raise AnchorMissing(f"{name}: calls that (re)create the document file `{docv}` (decompress / download) and the offset-table step")
        # invalidation points, decided on values for the world 'a table of the document file exists' (TableInvalidation): a call statement that removes the very name the readers open —
        # os.remove of it, a function of io.py / FileOffsetTable or a helper method of the class followed with the arguments bound by parameter (positional / keyword / extra flags) —,
        # an `if <the table exists>: <removal>` statement (whatever spells the existence test), or an mtime bump of the new file. A call statement that is handed the document file
        # and cannot be followed is 'opaque': it never discharges the obligation, but a path that is only covered by it is reported as not recognised instead of as a violation.
        skip = {id(source.enclosing_stmt(x)) for x in [r_ for _, r_ in creators] + builds}
        inv, opaque = [], []
        for n in walk_body(f):
            if isinstance(n, ast.Expr) and isinstance(n.value, ast.Call) and id(n) not in skip and not is_logging_stmt(n):
                c = n.value
                # os.utime(<document file>) without explicit times makes the file newer than any existing table: the validity test then rejects the table (same effect as removing it)
                touch = dotted(c.func) == "os.utime" and len(c.args) == 1 and isinstance(c.args[0], ast.Name) and c.args[0].id in names and all(k.arg == "times" and source.is_const(k.value) and k.value.value is None for k in c.keywords)
                v_ = True if touch else inv_.call_removes(c, ctx)
                if v_ is True:
                    inv.append(n)
                elif v_ is None:
                    opaque.append(n)
            elif isinstance(n, ast.If) and not any(isinstance(x, _JUMPS) for x in ast.walk(n)) and inv_.stmts_remove([n], ctx) is True:
                inv.append(n)
        inv_nodes = [x for n in inv for x in g.by_ast.get(id(n), [])]
        opaque_nodes = [x for n in opaque for x in g.by_ast.get(id(n), [])]
        try:
            build_nodes = [g.node_of(b) for b in builds]
            creator_nodes = [g.node_of(r_) for _, r_ in creators]
        except KeyError as x:
            raise AnchorMissing(f"{name}: {x}")
        for (c, r_), cn in zip(creators, creator_nodes):
            ok = bool(inv_nodes) and g.must_pass(cn, inv_nodes, exits=build_nodes, normal_only=True)
            path = None
            if not ok:
                if r_ is not c:
                    # reached through a helper method: an invalidation INSIDE the helper is not followed (not recognised) — unless the helper and what it calls make no call statement
                    # at all besides the (re)creating call itself, log lines and pure look-ups: then nothing in there can remove the table, and the path is as bare as it looks
                    h_ = alts_.helper_of(r_) if isinstance(r_, ast.Call) else None
                    may = None if h_ is None else [x for x, _a, _k, _r in calls_through(ldr, h_, cls=P) if x is not c and isinstance(source.parent(x), ast.Expr) and not is_logging_stmt(source.parent(x))
                                                  and not (dotted(x.func) or "").startswith(_HARMLESS) and dotted(x.func) not in _PURE_BUILTINS]
                    if may is None or may:
                        chk.unknown(rid, f"{name}: `{c.func.attr}` into the document file is reached through `{short(r_, 60)}`; an invalidation inside that helper"
                                         + (f" (`{short(may[0], 50)}`)" if may else "") + " is not followed", r_)
                        continue
                if opaque_nodes and g.must_pass(cn, inv_nodes + opaque_nodes, exits=build_nodes, normal_only=True):
                    chk.unknown(rid, f"{name}: between `{c.func.attr}` into the document file and the table step lies `{short(opaque[0], 60)}`, which is handed the document file and cannot be "
                                     f"followed (whether it invalidates the old offset table cannot be told)", opaque[0])
                    continue
                # the callee itself (Decompressor.decompress / Downloader.download) may have taken the invalidation over: looked into, not followed
                callee = [m_ for k_ in ldr.classes() for n_, m_ in ldr.methods(k_).items() if n_ == c.func.attr and k_ is not P]
                inside = None
                for m_ in callee:
                    for p_, a_ in source.bind_args(c, m_).items():
                        if isinstance(a_, ast.Name) and a_.id in names and inside is None:
                            cx = inv_.ctx(ldr, m_, {p_})
                            inside = next((x for x in walk_body(m_) if isinstance(x, ast.Call) and inv_.call_removes(x, cx) is True), None)
                if inside is not None:
                    chk.unknown(rid, f"{name}: no invalidation follows `{c.func.attr}` in the method itself, but the callee removes the table (`{short(inside, 60)}`); its position there is not followed", inside)
                    continue
                for b in build_nodes:
                    p_ = g.find_path(cn, b, avoid=inv_nodes, edge_ok=g.normal_edge)
                    if p_:
                        path = g.describe_path(p_)
                        break
            chk.ob(rid, f"{name}: `{c.func.attr}` into the document file is followed by the invalidation of its old offset table before the table step", ok, c,
                   short(c, 80) + ("" if ok else " — the offset-table step is reached with the predecessor's table still in place: " + " ".join(path or [])), path=path,
                   key=f"{_L}:DocumentSetPreparator.{name}:{c.func.attr}:invalidates-offset-table")


# ---- O14.10 every used corpus reaches a preparation task ---------------------------------------------------------------------------------------------------------------
class Sym:
    """an opaque representative value (an object the evaluator does not look into) that remembers what it was derived from — `corpus.name` of the i-th corpus, `Preparator(track.name,
    ...)`. Two are equal when their texts are; its truth value is not known (CannotEval)."""

    def __init__(self, text, parts=(), corpus=None):
        self.text, self.parts, self.corpus = text, tuple(parts), corpus

    def __eq__(self, o):
        return isinstance(o, Sym) and o.text == self.text

    def __hash__(self):
        return hash(self.text)

    def __bool__(self):
        raise CannotEval(f"truth value of `{self.text}`")

    def __repr__(self):
        return f"<{self.text}>"


def corpora_in(v, seen=None):
    """indices of the representative corpora the value v carries: directly, inside containers, or as the origin of an opaque derived value."""
    seen = seen if seen is not None else set()
    if id(v) in seen:
        return set()
    seen.add(id(v))
    out = set()
    if isinstance(v, Sym):
        if v.corpus is not None:
            out.add(v.corpus)
        for p_ in v.parts:
            out |= corpora_in(p_, seen)
    elif isinstance(v, dict):
        for k_, x in v.items():
            out |= corpora_in(k_, seen) | corpora_in(x, seen)
    elif isinstance(v, (list, tuple, set, frozenset)):
        for x in v:
            out |= corpora_in(x, seen)
    return out


class Yields(list):
    """what a generator function emitted, in order (exec_small's generator mode); snaps[i] = the corpora the i-th value carried AT THE TIME it was yielded."""

    def __init__(self):
        super().__init__()
        self.snaps = []

    def emit(self, v):
        self.append(v)
        self.snaps.append(corpora_in(v))


def copy_value(v, deep):
    if isinstance(v, dict):
        return {k_: (copy_value(x, True) if deep else x) for k_, x in v.items()}
    if isinstance(v, list):
        return [(copy_value(x, True) if deep else x) for x in v]
    if isinstance(v, tuple) and deep:
        return tuple(copy_value(x, True) for x in v)
    if isinstance(v, set):
        return set(v)
    return v


_CONTAINER_METHODS = ("update", "setdefault", "pop", "popitem", "append", "extend", "insert", "clear", "remove")


def ev_tasks(e, env):
    """Evaluator for a task-generating function (exec_small's generator mode), on top of minieval: containers are real Python objects — a dict display, dict(...), `{**a, ...}`, `a | b`,
    .copy(), copy.copy / deepcopy make a NEW object, a name or a subscript yields the SAME one, the mutating container methods change it in place —, so sharing between tasks is observed
    exactly as the interpreter would produce it. Parameters, module-level names, attribute chains on them and calls of anything else are opaque Sym values that remember their origin;
    the call named by env["__source__"] yields the representative corpora env["__corpora__"]. No repository code runs; CannotEval for anything else."""
    E = lambda x: ev_tasks(x, env)  # noqa: E731

    def seq(elts):
        vals = []
        for x in elts:
            if isinstance(x, ast.Starred):
                sv = E(x.value)
                if not isinstance(sv, (list, tuple)):
                    raise CannotEval(f"*{u(x.value)[:40]}")
                vals += list(sv)
            else:
                vals.append(E(x))
        return vals

    def bind_target(t, v, env2):
        if isinstance(t, ast.Name):
            env2[t.id] = v
        elif isinstance(t, (ast.Tuple, ast.List)) and isinstance(v, (list, tuple)) and len(v) == len(t.elts):
            for t_, x in zip(t.elts, v):
                bind_target(t_, x, env2)
        else:
            raise CannotEval(f"target `{u(t)[:40]}`")

    try:
        if isinstance(e, ast.Constant):
            return e.value
        if isinstance(e, ast.Name):
            if e.id in env:
                return env[e.id]
            if e.id in env.get("__globals__", ()):
                return Sym(e.id)
            raise CannotEval(f"unbound name {e.id}")
        if isinstance(e, ast.Attribute):
            b = E(e.value)
            if isinstance(b, Sym):
                return Sym(f"{b.text}.{e.attr}", (b,))
            if "__attr__" in env:  # model objects (a representative track): the caller's model answers attribute reads
                return env["__attr__"](b, e.attr, env)
            raise CannotEval(f"attribute {u(e)[:60]}")
        if isinstance(e, (ast.Tuple, ast.List, ast.Set)):
            vals = seq(e.elts)
            return vals if isinstance(e, ast.List) else (tuple(vals) if isinstance(e, ast.Tuple) else set(vals))
        if isinstance(e, ast.Dict):
            out = {}
            for k_, v_ in zip(e.keys, e.values):
                if k_ is None:
                    m = E(v_)
                    if not isinstance(m, dict):
                        raise CannotEval(f"**{u(v_)[:40]}")
                    out.update(m)
                else:
                    out[E(k_)] = E(v_)
            return out
        if isinstance(e, ast.Subscript):
            v = E(e.value)
            if not isinstance(v, (dict, list, tuple, str)):
                raise CannotEval(f"subscript of `{u(e.value)[:40]}`")
            if isinstance(e.slice, ast.Slice):
                lo, hi, st = (None if x is None else E(x) for x in (e.slice.lower, e.slice.upper, e.slice.step))
                if isinstance(v, dict) or not all(x is None or (isinstance(x, int) and not isinstance(x, bool)) for x in (lo, hi, st)) or st == 0:
                    raise CannotEval(f"slice {u(e)[:60]}")
                return v[lo:hi:st]
            return v[E(e.slice)]
        if isinstance(e, ast.IfExp):
            return E(e.body) if E(e.test) else E(e.orelse)
        if isinstance(e, ast.BoolOp):
            r = None
            for x in e.values:
                r = E(x)
                if bool(r) != isinstance(e.op, ast.And):
                    return r
            return r
        if isinstance(e, ast.UnaryOp) and isinstance(e.op, ast.Not):
            return not E(e.operand)
        if isinstance(e, ast.Compare):
            vals = [E(x) for x in [e.left] + e.comparators]
            names = [ast.Name(id=f"__cmp{i}", ctx=ast.Load()) for i in range(len(vals))]
            return ev(ast.Compare(left=names[0], ops=e.ops, comparators=names[1:]), {n_.id: v for n_, v in zip(names, vals)})
        if isinstance(e, ast.BinOp):
            a, b = E(e.left), E(e.right)
            if isinstance(e.op, ast.BitOr) and isinstance(a, dict) and isinstance(b, dict):
                return {**a, **b}
            if isinstance(e.op, ast.Add) and any(isinstance(a, t_) and isinstance(b, t_) for t_ in (list, tuple, str)):
                return a + b
            return ev(ast.BinOp(left=ast.Name(id="__a", ctx=ast.Load()), op=e.op, right=ast.Name(id="__b", ctx=ast.Load())), {"__a": a, "__b": b})
        if isinstance(e, (ast.ListComp, ast.GeneratorExp, ast.SetComp, ast.DictComp)):
            out = []

            def rec(i, env_):
                if i == len(e.generators):
                    out.append((ev_tasks(e.key, env_), ev_tasks(e.value, env_)) if isinstance(e, ast.DictComp) else ev_tasks(e.elt, env_))
                    return
                g = e.generators[i]
                it = ev_tasks(g.iter, env_)
                if g.is_async or not isinstance(it, (list, tuple, set, frozenset, dict, range, str)):
                    raise CannotEval(f"{u(e)[:60]}: iterable")
                for v in it:
                    env2 = dict(env_)
                    bind_target(g.target, v, env2)
                    if all(ev_tasks(c, env2) for c in g.ifs):
                        rec(i + 1, env2)

            rec(0, dict(env))
            return dict(out) if isinstance(e, ast.DictComp) else (set(out) if isinstance(e, ast.SetComp) else out)
        if isinstance(e, ast.Call):
            d = dotted(e.func) or ""
            if last_attr(e.func) == env.get("__source__"):
                return list(env["__corpora__"])
            if "__call__" in env:  # model objects: calls on them / with them are answered by the caller's model (NotImplemented = not one of its calls)
                r_ = env["__call__"](e, env, E)
                if r_ is not NotImplemented:
                    return r_
            args = seq(e.args)
            kws = {}
            for k_ in e.keywords:
                if k_.arg is None:
                    m = E(k_.value)
                    if not isinstance(m, dict) or not all(isinstance(x, str) for x in m):
                        raise CannotEval(f"**{u(k_.value)[:40]}")
                    kws.update(m)
                else:
                    kws[k_.arg] = E(k_.value)
            coll = (list, tuple, set, frozenset, dict, range)
            if d in ("list", "tuple", "iter", "sorted", "reversed", "set", "frozenset") and len(args) == 1 and isinstance(args[0], coll) and (not kws or d == "sorted"):
                # sorted(): the order of the tasks does not matter to the rule (and opaque values have none)
                v_ = list(args[0])[:: -1 if d == "reversed" else 1]
                return tuple(v_) if d == "tuple" else (set(v_) if d == "set" else (frozenset(v_) if d == "frozenset" else v_))
            if d in ("list", "dict", "tuple", "set") and not args and not kws:
                return {"list": list, "dict": dict, "tuple": tuple, "set": set}[d]()
            if d == "enumerate" and 1 <= len(args) <= 2 and isinstance(args[0], coll) and set(kws) <= {"start"}:
                start = kws.get("start", args[1] if len(args) == 2 else 0)
                if not isinstance(start, int):
                    raise CannotEval(f"{u(e)[:60]}: start")
                return list(enumerate(args[0], start))
            if d == "zip" and args and all(isinstance(a, coll) for a in args) and not kws:
                return list(zip(*args))
            if d == "len" and len(args) == 1 and isinstance(args[0], coll + (str,)):
                return len(args[0])
            if d == "dict" and len(args) <= 1:
                out = {}
                if args:
                    if not isinstance(args[0], (dict, list, tuple)):
                        raise CannotEval(f"{u(e)[:60]}")
                    out.update(args[0])
                out.update(kws)
                return out
            if d in ("copy.copy", "copy.deepcopy", "copy", "deepcopy") and len(args) == 1 and not kws:
                return copy_value(args[0], d.endswith("deepcopy"))
            if isinstance(e.func, ast.Attribute):
                recv = E(e.func.value)
                m = e.func.attr
                if isinstance(recv, (dict, list, set)):
                    if m == "copy" and not args and not kws:
                        return copy_value(recv, False)
                    if isinstance(recv, dict) and m in ("items", "keys", "values") and not args and not kws:
                        return list(getattr(recv, m)())
                    if isinstance(recv, dict) and m == "get" and 1 <= len(args) <= 2 and not kws:
                        return recv.get(*args)
                    if m in _CONTAINER_METHODS or (isinstance(recv, set) and m in ("add", "discard")):
                        return getattr(recv, m)(*args, **kws)
                    raise CannotEval(f"call {u(e)[:60]}")
                if isinstance(recv, (str, tuple)):
                    return ev(ast.Call(func=ast.Attribute(value=ast.Name(id="__r", ctx=ast.Load()), attr=m, ctx=ast.Load()), args=[ast.Name(id=f"__a{i}", ctx=ast.Load()) for i in range(len(args))], keywords=[]),
                              {"__r": recv, **{f"__a{i}": a for i, a in enumerate(args)}}) if not kws else ev(e, env)
            # any other call: an opaque result that remembers the values it was made from (a constructor, functools.partial, a helper of the module)
            return Sym(f"{u(e.func)}(...)", [E(e.func)] + args + list(kws.values()))
        return ev(e, env)
    except (KeyError, IndexError, TypeError, ValueError, AttributeError) as x:
        raise CannotEval(f"{u(e)[:60]}: {type(x).__name__}")


def materialised(call):
    """the iterable this call yields is consumed completely before anything is done with its elements: it feeds list(...) / tuple(...) / sorted(...) / a deque / .extend(...) or a list /
    set / dict comprehension, or a `for` statement that only stores the elements away (.append / .put / .add)."""
    for a in source.ancestors(call):
        if isinstance(a, ast.stmt):
            if isinstance(a, (ast.For, ast.AsyncFor)) and any(x is call for x in ast.walk(a.iter)):
                return any(isinstance(x, ast.Call) and isinstance(x.func, ast.Attribute) and x.func.attr in ("append", "put", "put_nowait", "add", "appendleft") for b_ in a.body for x in ast.walk(b_))
            return False
        if isinstance(a, (ast.ListComp, ast.SetComp, ast.DictComp)):
            return True
        if isinstance(a, ast.Call) and a is not call and ((dotted(a.func) or "") in ("list", "tuple", "sorted", "set", "frozenset", "deque", "collections.deque")
                                                         or (isinstance(a.func, ast.Attribute) and a.func.attr in ("extend", "extendleft"))):
            return True
    return False


def every_corpus_reaches_a_task(chk, repo, ldr, rid="O14.10"):
    """The document files of a corpus are prepared by the task that is handed that corpus; the tasks are produced by a generator and collected by the preparation actor before the first one
    runs. The generator is interpreted on a representative track with three used corpora; what each emitted task carries is read off the emitted objects themselves — when they are
    emitted, and again when the generator is exhausted (a parameter object shared between tasks is then in its final state)."""
    chk.rule(rid, "preparation tasks: the task generator (on_prepare_track of the processor that walks used_corpora(track)), interpreted on a track with three used corpora, hands EVERY used "
             "corpus to a task, and the task still carries it when the generator is exhausted — the consumer (TrackPreparationActor) builds the whole task list before the first task runs, so "
             "whatever a later iteration changes in an object an earlier task holds is what that task runs with", 2,
             "a used corpus reaches no preparation task (or every task ends up with the parameters of the last one): its document files and offset tables are never downloaded, extracted or "
             "verified, every task succeeds and the preparation reports success")
    src = "used_corpora"
    ldr.func(src)
    cands = [(c, m) for c in ldr.classes() for name, m in ldr.methods(c).items()
             if name == "on_prepare_track" and any(isinstance(n, ast.Call) and last_attr(n.func) == src for n in walk_body(m))]
    if len(cands) != 1:
        raise AnchorMissing(f"{_L}: the on_prepare_track implementation that walks {src}(track) (found {len(cands)})")
    cls, gen = cands[0]
    n_corpora = 3
    env = {p_: Sym(p_) for p_ in params_of(gen)}
    globs = {x.id for st in ldr.tree.body for x in ast.walk(st) if isinstance(x, ast.Name) and isinstance(x.ctx, ast.Store) and source.enclosing_func(x) is None}
    globs |= {st.name for st in ldr.tree.body if isinstance(st, (ast.ClassDef,) + tuple(source.FUNC_TYPES))}
    globs |= {(a.asname or a.name).split(".")[0] for st in ldr.tree.body if isinstance(st, (ast.Import, ast.ImportFrom)) for a in st.names}
    env.update({"__yields__": Yields(), "__source__": src, "__corpora__": [Sym(f"corpus#{i + 1}", corpus=i) for i in range(n_corpora)], "__globals__": globs})
    try:
        kind, val, at = exec_small(gen.body, env, evalf=ev_tasks)
    except CannotEval as x:
        chk.unknown(rid, f"{cls.name}.on_prepare_track cannot be interpreted on a representative track ({x}); which corpus each task carries is not known", gen)
        return
    ys = env["__yields__"]
    tasks, snaps = list(ys), list(ys.snaps)
    if kind == "return" and isinstance(val, (list, tuple)) and not tasks:  # a function that returns the task list instead of yielding
        tasks, snaps = list(val), [corpora_in(t) for t in val]
    elif kind == "raise":
        chk.unknown(rid, f"{cls.name}.on_prepare_track ends in a raise on the representative track; which corpus each task carries is not known", at)
        return
    names = lambda idx: ", ".join(f"#{i + 1}" for i in sorted(idx))  # noqa: E731
    every = set(range(n_corpora))
    at_yield = set().union(*snaps) if snaps else set()
    final = [corpora_in(t) for t in tasks]
    at_end = set().union(*final) if final else set()
    chk.ob(rid, "every used corpus is handed to a task", at_yield == every, gen,
           f"{len(tasks)} task(s) for {n_corpora} used corpora" + ("" if at_yield == every else f": corpus {names(every - at_yield)} (of {n_corpora}) is handed to no task — its documents are never prepared"),
           key=f"{_L}:{cls.name}.on_prepare_track:every-corpus-has-a-task")
    lost = (every & at_yield) - at_end
    consumers = [c for c in calls_named(repo, "on_prepare_track")]
    for c in consumers:
        chk.use(source.module_of(c))
    mat = [c for c in consumers if materialised(c)]
    changed = [i for i, (a, b) in enumerate(zip(snaps, final)) if a != b]
    if lost and not mat:
        chk.unknown(rid, f"{cls.name}.on_prepare_track: tasks {[i + 1 for i in changed]} do not carry the corpus they were yielded with once the generator is exhausted, and no consumer "
                    "of on_prepare_track that collects the tasks first can be located (whether a task runs before the next one is produced is not known)", gen)
    else:
        chk.ob(rid, "a task still carries its corpus when the generator is exhausted", not lost, gen,
               (f"consumer: {short(source.enclosing_stmt(mat[0]), 80)}" if mat else "no task is changed after it was yielded") if not lost else
               f"corpus {names(lost)} (of {n_corpora}) is carried by no task any more once all tasks are produced: task(s) {[i + 1 for i in changed]} share an object that a later iteration changes "
               f"(all {len(tasks)} tasks end up with corpus {names(at_end)}); the consumer `{short(source.enclosing_stmt(mat[0]), 70)}` collects every task before the first one runs",
               key=f"{_L}:{cls.name}.on_prepare_track:task-keeps-its-corpus")


# ---- O14.11 the corpora that are prepared are those of the challenge that will run -------------------------------------------------------------------------------------
class Model:
    """a representative object of the track model (track / challenge / operation / parameter source / corpus): `kind` and named fields; everything else about it is unknown."""

    def __init__(self, kind, **fields):
        self.kind, self.fields = kind, fields

    def __repr__(self):
        return f"<{self.kind} {self.fields.get('name', '')}>"


class TaskModel(list):
    """a representative schedule element: iterating it yields its leaf tasks (itself for a plain task, the sub-tasks for a parallel element), as track.Task / track.Parallel do."""

    def __init__(self, name, param_source=None, subtasks=None):
        list.__init__(self)
        self.kind, self.fields = "task", {"name": name, "param_source": param_source}
        self.fields["operation"] = Model("operation", name=name, task=self)
        self.extend(subtasks if subtasks is not None else [self])

    def __repr__(self):
        return f"<task {self.fields['name']}>"


class TrackWorld:
    """A model track interpreted WITH the repository's own Track class: fields the world fixes (corpora, challenges with default / selected flags and schedules) are read directly,
    any other attribute of the track — `selected_challenge_or_default`, `default_challenge`, `find_challenge_or_default(...)` — is the property / method of track.Track, interpreted
    statement by statement (exec_small + ev_tasks) on the model. A call that is handed exactly one task of the model (operation_parameters(t, sub_task), or whatever resolves the
    parameter source of a task) yields that task's parameter source; DocumentCorpus.union is the union of the document sets of two same-named corpora."""

    def __init__(self, trk_mod, track_cls, globs):
        self.mod, self.cls, self.globs, self.depth = trk_mod, track_cls, globs, 0
        self.members = trk_mod.methods(track_cls)

    def env(w, names):  # noqa: N805 (`self` is a name of the interpreted code)
        return dict(names, __yields__=Yields(), __attr__=w.attr, __call__=w.call, __globals__=w.globs)

    def run(self, fn, bound):
        self.depth += 1
        try:
            if self.depth > 8:
                raise CannotEval("model: nesting too deep")
            a = fn.args
            env = self.env(bound)
            for nm, dv in zip([x.arg for x in a.posonlyargs + a.args][len(a.posonlyargs + a.args) - len(a.defaults):], a.defaults):
                if nm not in env:
                    env[nm] = ev_tasks(dv, env)
            kind, val, at = exec_small(fn.body, env, evalf=ev_tasks)
            if kind == "raise":
                raise CannotEval(f"{fn.name} ends in `{short(at, 50)}` on the model track")
            return val if kind == "return" else None
        finally:
            self.depth -= 1

    def attr(self, obj, name, env):
        if isinstance(obj, (Model, TaskModel)):
            if name in obj.fields:
                return obj.fields[name]
            m = self.members.get(name) if obj.kind == "track" else None
            if m is not None and any(last_attr(d_) in ("property", "cached_property") for d_ in m.decorator_list):
                return self.run(m, {params_of(m)[0]: obj})
            raise CannotEval(f"model: attribute `{name}` of a {obj.kind}")
        raise CannotEval(f"attribute `{name}` of {type(obj).__name__}")

    def call(self, e, env, E):
        d = dotted(e.func) or ""
        if d in ("hasattr", "getattr") and 2 <= len(e.args) <= 3 and not e.keywords:
            obj, name = E(e.args[0]), E(e.args[1])
            if isinstance(obj, (Model, TaskModel)) and isinstance(name, str):
                if d == "hasattr":
                    return name in obj.fields
                if name in obj.fields:
                    return obj.fields[name]
                if len(e.args) == 3:
                    return E(e.args[2])
                raise CannotEval(f"model: getattr `{name}` of a {obj.kind}")
            return NotImplemented
        if d == "next" and 1 <= len(e.args) <= 2 and not e.keywords:  # next(<generator expression / iter(...)>[, default]): the first element (search idiom)
            items = E(e.args[0])
            if not isinstance(items, (list, tuple)):
                raise CannotEval(f"model: {u(e)[:50]}")
            if items:
                return items[0]
            if len(e.args) == 2:
                return E(e.args[1])
            raise CannotEval(f"model: {u(e)[:50]} raises StopIteration")
        if d in ("any", "all") and len(e.args) == 1 and not e.keywords:
            items = E(e.args[0])
            if isinstance(items, (list, tuple)):
                return (any if d == "any" else all)(bool(x) for x in items)
        if isinstance(e.func, ast.Attribute):
            recv = E(e.func.value)
            if isinstance(recv, (Model, TaskModel)):
                args, kws = [E(a) for a in e.args], {k.arg: E(k.value) for k in e.keywords if k.arg}
                if recv.kind == "corpus" and e.func.attr == "union" and len(args) == 1 and isinstance(args[0], Model) and args[0].kind == "corpus":
                    if recv.fields["name"] != args[0].fields["name"]:
                        raise CannotEval("model: union of corpora with different names (an assertion error at run time)")
                    return recv if recv is args[0] else Model("corpus", name=recv.fields["name"], documents=sorted(set(recv.fields["documents"]) | set(args[0].fields["documents"])))
                m = self.members.get(e.func.attr) if recv.kind == "track" else None
                if m is not None and not m.decorator_list:
                    b = {params_of(m)[0]: recv}
                    b.update(dict(zip(params_of(m)[1:], args)))
                    b.update(kws)
                    return self.run(m, b)
                raise CannotEval(f"model: call of `{e.func.attr}` on a {recv.kind}")
        args = [E(a) for a in e.args if not isinstance(a, ast.Starred)] + [E(k.value) for k in e.keywords]
        tasks = [a for a in args if isinstance(a, TaskModel)]
        if len(tasks) == 1 and not d.startswith(("logging.", "logger.", "console.")):
            return tasks[0].fields["param_source"]  # role 'the parameter source of this task'
        return NotImplemented


def prepared_corpora_are_those_of_the_running_challenge(chk, repo, ldr, rid="O14.11"):
    """used_corpora(track) decides which corpora get a preparation task (O14.10). It is interpreted on model tracks with several challenges that use DIFFERENT corpora; the challenge that
    will run is the selected one (track.selected_challenge_or_default: the default one only when none is selected) — every corpus / document set that challenge's schedule references must
    be in the result."""
    chk.rule(rid, "the corpora handed to preparation are those used by the challenge that will run: used_corpora(track), interpreted on model tracks with two challenges that use different "
             "corpora (the track's own properties — selected / default challenge — interpreted from track.Track), returns every corpus the SELECTED challenge's schedule references (the "
             "default challenge's only when none is selected), through plain and parallel tasks, and with the document sets of all its tasks united per corpus", 3,
             "a challenge selected with --challenge uses a corpus / document set that the default challenge (or the first task) does not: its document files are never downloaded, "
             "extracted, verified or given an offset table, every preparation task succeeds and the preparation reports success")
    uc = ldr.func("used_corpora")
    tp = params(uc, 1)[0]
    try:
        trk = repo.module("esrally/track/track.py")
        tcls = trk.cls("Track")
    except (KeyError, AnchorMissing, AttributeError) as x:
        raise AnchorMissing(f"esrally/track/track.py: class Track ({x})")
    chk.use(trk)
    globs = {x.id for st in ldr.tree.body for x in ast.walk(st) if isinstance(x, ast.Name) and isinstance(x.ctx, ast.Store) and source.enclosing_func(x) is None}
    globs |= {st.name for st in ldr.tree.body if isinstance(st, (ast.ClassDef,) + tuple(source.FUNC_TYPES))}
    globs |= {(a.asname or a.name).split(".")[0] for st in ldr.tree.body if isinstance(st, (ast.Import, ast.ImportFrom)) for a in st.names}

    def corpus(name, *docs):
        return Model("corpus", name=name, documents=list(docs))

    def task(name, *corpora, sub=None):
        return TaskModel(name, Model("parameter source", name=f"params of {name}", corpora=list(corpora)) if corpora else Model("parameter source", name=f"params of {name}"), sub)

    def challenge(name, default, selected, schedule):
        return Model("challenge", name=name, default=default, selected=selected, schedule=schedule)

    def track(*challenges):
        return Model("track", name="model-track", corpora=[corpus("A", "a1"), corpus("B", "b1", "b2"), corpus("C", "c1")], challenges=list(challenges))

    worlds = [
        ("a non-default challenge is selected", "the selected challenge's corpora (a plain task and a sub-task of a parallel element)",
         track(challenge("default-challenge", True, False, [task("index-a", corpus("A", "a1"))]),
               challenge("selected-challenge", False, True, [task("no-corpus"), task("index-b", corpus("B", "b1")), task("parallel", sub=[task("search"), task("index-c", corpus("C", "c1"))])])),
         {"B": {"b1"}, "C": {"c1"}}),
        ("no challenge is selected", "the default challenge's corpora",
         track(challenge("other-challenge", False, False, [task("index-b", corpus("B", "b1"))]), challenge("default-challenge", True, False, [task("index-a", corpus("A", "a1"))])),
         {"A": {"a1"}}),
        ("two tasks of the selected challenge use different document sets of one corpus", "the union of the document sets",
         track(challenge("default-challenge", True, False, [task("index-a", corpus("A", "a1"))]),
               challenge("selected-challenge", False, True, [task("index-b1", corpus("B", "b1")), task("index-b2", corpus("B", "b2")), task("index-c", corpus("C", "c1"))])),
         {"B": {"b1", "b2"}, "C": {"c1"}}),
    ]
    for when, what, t, need in worlds:
        w = TrackWorld(trk, tcls, globs)
        try:
            got = w.run(uc, {tp: t})
            got = list(got) if isinstance(got, (list, tuple, set, frozenset)) else list(got.values()) if isinstance(got, dict) else None
            if got is None or not all(isinstance(c, Model) and c.kind == "corpus" for c in got):
                raise CannotEval(f"used_corpora does not hand back a collection of corpora on the model track ({got!r})")
        except CannotEval as x:
            chk.unknown(rid, f"used_corpora cannot be interpreted on the model track where {when}: {x}", uc)
            continue
        have = {}
        for c in got:
            have.setdefault(c.fields["name"], set()).update(c.fields["documents"])
        missing = [f"{n_} (document sets {sorted(ds - have.get(n_, set()))})" for n_, ds in sorted(need.items()) if not ds <= have.get(n_, set())]
        chk.ob(rid, f"{when}: used_corpora returns {what}", not missing, uc,
               f"returned: { {n_: sorted(ds) for n_, ds in sorted(have.items())} }" + ("" if not missing else f" — corpus {', '.join(missing)} of the challenge that will run gets no preparation task: "
               "its document files are never downloaded, verified or given an offset table"), key=f"{_L}:used_corpora:{when}")


def run(chk):
    repo = chk.repo
    net, io_, ldr = repo.module(_N), repo.module(_I), repo.module(_L)
    chk.use(net, io_, ldr)
    chk.explanation = (
        "Decides the preparation skeleton: downloads write only to a temporary name which is renamed once, behind a size check whose mismatch edge removes it and raises, with a broad "
        "handler that removes it and re-raises; HTTP statuses evaluated over a finite domain (every non-2xx raises); retry loop range(N+1) for the two protocol errors with re-raise on "
        "the last index; existence and size verification after download and after decompression; the state loop exits only under present-and-expected-size and is followed by the offset "
        "table build whose line-count check uses `is not None`; exhaustive archive dispatch with the library fallback on every path; offset table writer/reader protocol; the offset table is "
        "written under a temporary name and published by one rename after the writing block completed (path expressions evaluated on a representative data-file path); every call that "
        "(re)creates the document file is followed by the removal of its old offset table before the table step. Roles are located by data flow (arguments bound to the callee's "
        "parameters, calls followed into helper functions / methods of the same module / class with the arguments expressed in the caller's terms) and decisions are taken on "
        "representative values (tables.decide + minieval on the extracted tests: size / line-count mismatch tables, download_http interpreted statement by statement incl. try / except per "
        "world of cut-off attempts (the transfer is answered by a script, handlers selected through the parsed urllib3 hierarchy), the (target, size) pairs and the (re)creating calls "
        "followed through helper methods that return a record / a pair, extension dispatch incl. module-level "
        "dispatch tables, splitext on concrete names, the scanning loop per readline() result, is_valid per (exists, mtimes), the written table entry parsed by the reader's own "
        "expression, find_closest_offset interpreted statement by statement on tables written by add_offset, the retry budget on the values the locals have when the loop is reached "
        "for the call net.download makes, the external-tool / library fallback per (tool present, external run succeeded) world, splitext interpreted statement by statement over "
        "module-level suffix tables incl. derived ones, offset-table removal and its existence tests evaluated for the world 'a stale table of the data file exists' with calls "
        "followed into io.py / FileOffsetTable by parameter binding, the value of download()'s temporary path when the transfer starts per (declared / undeclared size, HTTP / bucket URL, "
        "progress indicator given or not) world, the preparation-task generator interpreted with real shared containers on a track with three used corpora: which corpus each task "
        "carries when it is yielded and when the generator is exhausted, used_corpora interpreted on model tracks with two challenges that use different corpora — the track's selected / "
        "default challenge properties interpreted from track.Track itself —: the corpora and document sets of the challenge that will run are all returned); a role that cannot be located is reported as not recognised (exit 2), never as a violation."
    )
    chk.not_decided = "archive contents, real network behaviour, crash points inside library calls (a kill between two statements of the offset-table build is covered by the rename protocol O14.8; a torn write inside os.replace is not)."

    # ---- O14.1 download is atomic ---------------------------------------------------------------------------------------------------------
    chk.rule("O14.1", "net.download: every writer receives the temporary path, never the final one; the final name is produced by a single rename(tmp, final) dominated by the size comparison "
             "whose mismatch edge removes tmp and raises; the broad handler around the transfer removes tmp and re-raises", 6,
             "an interrupted or short download leaves a partial file under the final name, which the next run accepts when no size is declared")
    dl = net.func("download")
    dp = params(dl, 3)
    final = dp[1]
    g = cfg_of(dl)
    ddefs = local_defs(dl)
    tmpv = [k for k, v in ddefs.items() if isinstance(v, ast.BinOp) and isinstance(v.op, ast.Add) and u(v.left) == final and isinstance(v.right, ast.Constant)]
    if not tmpv:
        try:  # any other spelling of <final> + <non-empty suffix> (f-string, format): decided on its value for a representative final path
            tmpv = [k for k, v in ddefs.items() if any(isinstance(x, ast.Name) and x.id == final for x in ast.walk(v)) and isinstance(ev(v, {final: _REP}), str)
                    and ev(v, {final: _REP}).startswith(_REP) and len(ev(v, {final: _REP})) > len(_REP)]
        except CannotEval:
            tmpv = []
    # every call made by download() itself or by a helper function of the module it calls (an extracted `_fetch(url, tmp, ...)`), with the arguments expressed in download()'s terms
    reach = calls_through(net, dl)
    is_ = lambda e, name: isinstance(e, ast.Name) and e.id == name  # noqa: E731
    writers = [(c, a_, k_, r_) for c, a_, k_, r_ in reach if last_attr(c.func) in ("download_http", "download_from_bucket", "_download_http")]
    if not tmpv:
        # role by data flow (the binding is conditional, bound more than once, ...): the local of download() that is bound to a value computed from the final path and is handed to a
        # transfer routine, or renamed onto the final path; WHICH value it has when the transfer starts is decided below, per world
        handed = [a.id for c, a_, k_, r_ in writers for a in list(a_) + list(k_.values()) if isinstance(a, ast.Name) and a.id != final]
        handed += [a_[0].id for c, a_, k_, r_ in reach if dotted(c.func) in _RENAMES and len(a_) == 2 and isinstance(a_[0], ast.Name) and a_[0].id != final and is_(a_[1], final)]
        from_final = {t.id for n in walk_body(dl) if isinstance(n, ast.Assign) and any(is_(x, final) for x in ast.walk(n.value)) for t in n.targets if isinstance(t, ast.Name)}
        tmpv = [h for h in dict.fromkeys(handed) if h in from_final]
        if len(tmpv) != 1:
            tmpv = []
    if not tmpv:
        raise AnchorMissing("temporary path `local_path + <suffix>` in net.download")
    tmp = tmpv[0]
    # the value of the temporary path when a transfer starts, per world (declared / undeclared size, HTTP / bucket URL): download()'s statements in front of the transfer are interpreted
    # on representative parameter values; a transfer that is handed the final name itself streams a partial body into it, and no handler runs when the process is killed
    same, known_for, starts = [], set(), []
    for st_ in [source.enclosing_stmt(r_) for _, _, _, r_ in writers]:
        if not any(st_ is x for x in starts):
            starts.append(st_)
    # parameters beyond (url, path, size) with a constant default (the progress indicator): left out by the caller, or given
    extra_ = [(p_.arg, d_.value) for p_, d_ in zip((dl.args.posonlyargs + dl.args.args)[::-1], dl.args.defaults[::-1]) if isinstance(d_, ast.Constant) and p_.arg not in dp[:3]]
    unknown_ = 0
    for st_, e_, url_, given_ in itertools.product(starts, (None, 7, 0), ("https://example.org/corpus/documents.json.bz2", "s3://bucket/corpus/documents.json.bz2"),
                                                   itertools.product(*[(False, True)] * len(extra_))):
        env_ = {nm_: (Opaque(f"a {nm_}") if g_ else dv_) for (nm_, dv_), g_ in zip(extra_, given_)}
        env_.update({dp[0]: url_, final: _REP, dp[2]: e_})
        try:
            if exec_small(dl.body, env_, lenient=True, until=st_)[0] != "until":
                continue
        except CannotEval:
            continue
        if isinstance(env_.get(tmp), str) and env_.get(final) == _REP:
            known_for.add(e_)
            w_ = f"{dp[2]}={e_!r}, {url_.split(':')[0]} URL" + "".join(f", {nm_} given" for (nm_, _), g_ in zip(extra_, given_) if g_)
            if env_[tmp] == _REP and w_ not in same:
                same.append(w_)
        else:
            unknown_ += 1
    if same or (known_for == {None, 7, 0} and not unknown_):
        chk.ob("O14.1", "the temporary path differs from the final name whatever size is declared", not same, source.enclosing_stmt(ddefs[tmp]) if tmp in ddefs else dl,
               "" if not same else f"`{tmp}` IS the final name when {'; '.join(same[:3])}: the body is streamed into the final name, and an interrupted transfer (kill, power loss: no handler runs) "
               "leaves a partial file there which the next run accepts when no size is declared", key=f"{_N}:download:temporary-path-differs")
    elif starts:
        chk.unknown("O14.1", f"net.download: the value of `{tmp}` when the transfer starts cannot be evaluated for every declared / undeclared size", dl)
    if len(writers) < 2:
        chk.unknown("O14.1", f"net.download: the calls of the transfer routines (download_http / download_from_bucket) cannot be located, found {[last_attr(w[0].func) for w in writers]}", dl)
    else:
        chk.ob("O14.1", "transfer routines located", True, dl, f"{[last_attr(w[0].func) for w in writers]}")
    for w, a_, k_, r_ in writers:
        given = list(a_) + list(k_.values())
        passes_final = any(is_(a, final) for a in given)
        passes_tmp = any(is_(a, tmp) for a in given)
        chk.ob("O14.1", f"{last_attr(w.func)} writes to the temporary path", passes_tmp and not passes_final, w,
               short(w, 90) + ("" if r_ is w else f" (reached through `{short(r_, 60)}`: path arguments {[u(a) for a in given if is_(a, tmp) or is_(a, final)]})"))
    ren = [(c, a_, r_) for c, a_, k_, r_ in reach if dotted(c.func) in _RENAMES]
    if not ren:
        chk.unknown("O14.1", "net.download: no rename (os.rename / os.replace / shutil.move) is reached from download(); how the final name is produced cannot be followed", dl)
    else:
        ok = len(ren) == 1 and [u(a) for a in ren[0][1]] == [tmp, final]
        chk.ob("O14.1", "single rename(tmp, final)", ok, ren[0][0], f"{len(ren)} rename(s)")
    # the size check: the (outermost) `if` that compares the expected-size parameter with another value (role: the measured size, which must be getsize(tmp)); what it does for a
    # mismatch / a match is evaluated (tables.decide over representative values), so arm order, nesting and operand order do not matter
    exp = dp[2]
    # located in download() itself or — an extracted `_verify(tmp, expected)` — in a helper function of the module that a call statement of download() hands the temporary path and the
    # expected size to; sf / sg / stmp / sexp = that function, its CFG and the two values' names in it, sanchor = the statement of download() the rename has to lie behind
    S, meas = comparing_if([n for n in walk_body(dl) if isinstance(n, ast.If)], exp)
    sf, sg, stmp, sexp, sanchor = dl, g, tmp, exp, S
    if S is None:
        for st_ in [x for x in walk_body(dl) if isinstance(x, ast.Expr) and isinstance(x.value, ast.Call) and isinstance(x.value.func, ast.Name) and x.value.func.id in helper_functions(net)]:
            h_ = helper_functions(net)[st_.value.func.id]
            hb_ = source.bind_args(st_.value, h_)
            pt_, pe_ = [k for k, v in hb_.items() if is_(v, tmp)], [k for k, v in hb_.items() if is_(v, exp)]
            if len(pt_) == 1 and len(pe_) == 1:
                S, meas = comparing_if([n for n in walk_body(h_) if isinstance(n, ast.If)], pe_[0])
                if S is not None:
                    sf, sg, stmp, sexp, sanchor = h_, cfg_of(h_), pt_[0], pe_[0], st_
                    break
    if S is None:
        chk.unknown("O14.1", f"net.download: no `if` of download() (or of a helper it hands `{tmp}` and `{exp}` to) compares the expected size with another value (the size check cannot be located)", dl)
    else:
        okt, detail, res = mismatch_outcomes(S, sexp, u(meas))
        if not res:
            chk.unknown("O14.1", f"net.download: the size check cannot be evaluated: {detail}", S)
        elif ren:
            bad_, good_ = res[(7, 6)], res[(7, 7)]
            ok = bad_.kind == "raise" and good_.kind != "raise" and raises_on_all_paths(sg, [sg.node_of(bad_.node)]) and g.dominated_by_nodes(g.node_of(ren[0][2]), [g.node_of(sanchor)]) \
                and (sf is dl or source.enclosing(sanchor, ast.Try) is None)
            d_ = ""
            if ok:
                rm = removes_file(before_in_block(bad_.node), stmp, net)
                if rm is None:
                    chk.unknown("O14.1", "net.download: what the size-mismatch arm does before it raises cannot be evaluated", bad_.node)
                ok, d_ = rm is not False, "" if rm is not False else "the mismatch arm does not remove the temporary file"
            ok = ok and same_value(meas, expr(f"os.path.getsize({stmp})"), local_defs(sf))
            chk.ob("O14.1", "rename only behind the size check; mismatch removes tmp and raises", ok, S, d_)
        if res:
            # the check compares with the expected size whenever one is known
            chk.ob("O14.1", "size compared whenever an expected size is known", okt, S, detail)
    roots = [r_ for _, _, _, r_ in writers]
    trys = [n for n in walk_body(dl) if isinstance(n, ast.Try) and any(any(x is r_ for x in ast.walk(n)) for r_ in roots)]
    broad = [h for t_ in trys for h in t_.handlers if h.type is None or last_attr(h.type) == "BaseException"]
    inner_try = [w_ for w_, _, _, r_ in writers if r_ is not w_ and source.enclosing(w_, ast.Try) is not None]
    cleanup_finally = [t_ for t_ in trys if t_.finalbody and removes_file(t_.finalbody, tmp, net) is not False]
    if writers and not trys and inner_try:
        chk.unknown("O14.1", f"net.download: the transfer `{short(inner_try[0], 50)}` is reached through a helper and the try statement around it lies in that helper; its handler is not followed", inner_try[0])
    elif writers and not trys:
        chk.ob("O14.1", "broad handler removes tmp and re-raises", False, dl, "the transfer is not inside a try statement: an interrupted transfer leaves the temporary file behind")
    elif writers and not broad and cleanup_finally:
        chk.unknown("O14.1", "net.download: the temporary file is cleaned up in a `finally` block instead of a broad handler; whether it is kept on success only is not followed", cleanup_finally[0])
    elif writers:
        ok, d_ = False, "no `except BaseException` / bare except around the transfer"
        if broad:
            h = broad[0]
            hn = g.by_ast.get(id(h), [])
            rm = removes_file(h.body, tmp, net)
            if rm is None:
                chk.unknown("O14.1", "net.download: what the broad handler around the transfer does cannot be evaluated", h)
            ok = rm is not False and bool(hn) and all(g.exit.id not in g.reachable([x]) for x in hn) and isinstance(h.body[-1], ast.Raise) and h.body[-1].exc is None
            d_ = "" if ok else ("the handler does not remove the temporary file" if rm is False else "the handler does not end in a bare `raise`")
        chk.ob("O14.1", "broad handler removes tmp and re-raises", ok, trys[0], d_)
    opens_final = [c for c, a_, k_, r_ in reach if dotted(c.func) == "open" and a_ and is_(a_[0], final)]
    chk.ob("O14.1", "the final name is never opened for writing here", not opens_final, opens_final[0] if opens_final else dl, "")
    # the size the download is verified against is the DECLARED one; the transfer's own Content-Length may stand in only when nothing was declared.
    # role 'declared size' of each transfer routine, by data flow: the parameter that receives download()'s expected-size parameter (through download_http for _download_http)
    def size_param(fname):
        for c, a_, k_, r_ in reach:
            if last_attr(c.func) == fname and net.index().get(fname) is not None:
                f_ = net.func(fname)
                names = params_of(f_)
                got = [names[i] for i, a in enumerate(a_) if i < len(names) and is_(a, exp)] + [k for k, v in k_.items() if is_(v, exp)]
                if len(got) == 1:
                    return got[0]
        cand = [p_ for p_ in params_of(net.func(fname)) if "size" in p_]  # not reached from download() with the size as a plain argument: fall back to the parameter's name
        if len(cand) != 1:
            raise AnchorMissing(f"expected-size parameter of {fname}")
        return cand[0]

    dh = net.func("_download_http")
    esz = size_param("_download_http")
    ow = [n for n in walk_body(dh) if isinstance(n, (ast.Assign, ast.AugAssign)) and any(isinstance(t, ast.Name) and t.id == esz for t in (n.targets if isinstance(n, ast.Assign) else [n.target]))]
    for n in ow:
        ok = pat.guarded(n, f"{esz} is None") is not None
        chk.ob("O14.1", "a declared expected size is never replaced by the response's own Content-Length", ok, n,
               short(n, 70) + ("" if ok else " — a truncated but self-consistent response passes the size check and is renamed to the final name"), key=f"{_N}:_download_http:overwrite-expected-size")
    rets_ = [n for n in walk_body(dh) if isinstance(n, ast.Return) and n.value is not None]
    chk.ob("O14.1", "the transfer returns the size to verify against (declared, else Content-Length)", bool(rets_) and all(u(returned(r)) == esz for r in rets_) and gdl_has_normal_return(dh),
           rets_[0] if rets_ else dh, "")

    # the bucket transfer cannot learn a size from the transfer itself: it hands back the DECLARED size, so that net.download compares the bytes on disk with it before renaming
    dfb = net.func("download_from_bucket")
    bsz = size_param("download_from_bucket")
    brets = [n for n in walk_body(dfb) if isinstance(n, ast.Return)]
    ok = bool(brets) and all(r.value is not None and u(returned(r)) == bsz for r in brets) and gdl_has_normal_return(dfb)
    chk.ob("O14.1", "the bucket transfer returns the declared size to verify against", ok, brets[0] if brets else dfb,
           f"returns {[u(r.value) if r.value is not None else None for r in brets]}" + ("" if ok else " — the caller receives None, skips the size comparison and renames a truncated download to the final name"),
           key=f"{_N}:download_from_bucket:returns-declared-size")

    # ---- O14.2 retry budget / HTTP status --------------------------------------------------------------------------------------------------------
    chk.rule("O14.2", "HTTP retry protocol, decided on the interpreted download_http per world (which attempts of the transfer are cut off, with which class): 2..999 attempts (range(N + 1)) when "
             "every attempt is cut off, a retry only for the two urllib3 protocol classes, the error of the last attempt reaches the caller (re-raise on the last index), no attempt a "
             "retry loop provides for is lost, the transfer's result returned, same arguments on every attempt; every non-2xx status raises an HTTP error "
             "(status domain {200,204,299,300,304,399,400,404,500})", 12,
             "a dropped connection aborts at once / retries forever; a 3xx/4xx body is stored as the data file")
    dh = net.func("download_http")
    dhh = net.func("_download_http")
    # role: the attempts = the calls of the transfer (_download_http) that download_http makes, wherever they stand (inside a retry loop, behind it, in a while loop, ...)
    tcalls = [n for n in walk_body(dh) if isinstance(n, ast.Call) and last_attr(n.func) == "_download_http"]
    if not tcalls:
        raise AnchorMissing("the call(s) of the transfer _download_http in download_http")
    # module-level literal constants are bound (whether the code names one or, after constant propagation N9, holds the literal) ...
    menv = {}
    for st_ in net.tree.body:
        if isinstance(st_, ast.Assign) and len(st_.targets) == 1 and isinstance(st_.targets[0], ast.Name):
            try:
                menv[st_.targets[0].id] = ast.literal_eval(st_.value)
            except (ValueError, SyntaxError):
                pass
    # ... and the parameters have the values of the call net.download makes (role: the transfer on the corpus path): every parameter the call does not pass has its default — a budget
    # that is a keyword parameter `retries=None`, resolved to the module constant at call time, reads like the constant itself
    a = dh.args
    pvals = {}
    for nm, dv in list(zip([x.arg for x in a.posonlyargs + a.args][len(a.posonlyargs + a.args) - len(a.defaults):], a.defaults)) + [(x.arg, dv) for x, dv in zip(a.kwonlyargs, a.kw_defaults) if dv is not None]:
        try:
            pvals[nm] = ev(dv, dict(menv))
        except CannotEval:
            pvals[nm] = Opaque(dotted(dv) or u(dv)[:40])  # e.g. sleep=time.sleep: only its identity matters (role 'the pause': a call of a value that IS time.sleep)
    for c_, a_, k_, r_ in [w_ for w_ in reach if last_attr(w_[0].func) == "download_http"][:1]:
        for nm, e_ in bound_params(a_, k_, dh).items():
            try:
                pvals[nm] = ev(e_, dict(menv))
            except CannotEval:
                pvals[nm] = Opaque(f"net.download's {u(e_)[:40]}")
    dhp = params(dh, 3)
    reps = ["https://example.org/corpus/documents.json.bz2", _REP + ".tmp", 7]  # representative url / temporary path / declared size
    pvals.update(dict(zip(dhp[:3], reps)))
    for nm in params_of(dh) + [x.arg for x in a.kwonlyargs]:
        pvals.setdefault(nm, Opaque(f"a {nm}"))
    retry_worlds(chk, "O14.2", net, dh, dhh, tcalls, dict(menv, **pvals), reps)
    st = [n for n in walk_body(dhh) if isinstance(n, ast.If) and ".status" in u(n.test)]
    if not st:
        raise AnchorMissing("status test in _download_http")
    gd = cfg_of(dhh)
    # what the status statement does is evaluated for every status of the domain with <response>.status := status (tables.decide: nested tests / either arm order allowed)
    skey = [u(x) for x in ast.walk(st[0].test) if isinstance(x, ast.Attribute) and x.attr == "status"][0]
    reached = {}
    for status in (200, 204, 299, 300, 304, 399, 400, 404, 500):
        try:
            o = outcome(st[0], {skey: status})
        except CannotEval as e:
            chk.unknown("O14.2", f"status test cannot be evaluated over the status domain: {e}", st[0])
            break
        want = status > 299
        rejected = o.kind == "raise" and raises_on_all_paths(gd, [gd.node_of(o.node)])
        if rejected:
            reached[status] = o.node
        chk.ob("O14.2", f"HTTP {status} {'raises' if want else 'is accepted'}", rejected == want, st[0], f"`{u(st[0].test)}` -> {o.text()[:60]}", key=f"{_N}:_download_http:status:{status}")
    if reached:
        ok = all(r_.exc is not None and "HTTPError" in u(r_.exc) for r_ in reached.values())
        wn = [gd.node_of(x) for x in walk_body(dhh) if isinstance(x, ast.Call) and last_attr(x.func) == "write"]
        # no write is reachable before the status statement: every write of the function lies behind it
        ok = ok and all(gd.dominated_by_nodes(w_, [gd.node_of(st[0])]) for w_ in wn)
        chk.ob("O14.2", "a rejected status raises HTTPError before any byte is written", ok, st[0], "")
    rq = [n for n in ast.walk(dhh) if isinstance(n, ast.Call) and last_attr(n.func) == "_request"]
    if not rq:
        chk.unknown("O14.2", "_download_http: the _request(...) call cannot be located", dhh)
    else:
        ecl = arg_of(rq[0], None, "enforce_content_length")
        chk.ob("O14.2", "short bodies are detected (enforce_content_length)", ecl is not None and source.is_const(ecl, True), rq[0], "")

    # ---- O14.3 verification dominates use -----------------------------------------------------------------------------------------------------------------
    chk.rule("O14.3", "downloader: existence and size tests after the transfer, both raising; HTTP and URL errors converted to data errors (never swallowed); decompressor: existence and size "
             "tests after decompression, both raising; base-url / offline guards raise before any transfer", 9,
             "a short/absent file is taken as the corpus")
    D = ldr.cls("Downloader")
    dd = method(ldr, D, "download")
    gdd = cfg_of(dd)
    nd = [n for n in walk_body(dd) if isinstance(n, ast.Call) and dotted(n.func) == "net.download"]
    if not nd:
        raise AnchorMissing("net.download call in Downloader.download")
    ddp = params(dd, 4)
    nb = source.bind_args(nd[0], dl)  # by the parameters of net.download (positional or keyword)
    ok = [u(nb.get(dp[1])), u(nb.get(dp[2]))] == [ddp[2], ddp[3]]
    chk.ob("O14.3", "transfer called with the target path and the declared size", ok, nd[0], short(nd[0], 90))
    tr = source.enclosing(nd[0], ast.Try)
    if tr is not None:
        for h in tr.handlers:
            hn = gdd.by_ast.get(id(h), [])
            ok = bool(hn) and all(gdd.exit.id not in gdd.reachable([x]) for x in hn) and any(isinstance(x, ast.Raise) and x.exc is not None and "DataError" in u(x.exc) for x in ast.walk(h))
            chk.ob("O14.3", f"`except {u(h.type)}` converts to a data error on every path", ok, h, "")
    post_checks(chk, "O14.3", ldr, D, dd, nd[0], ddp[2], ddp[3], "downloader: missing file after the transfer raises", "downloader: size mismatch after the transfer raises",
                ("not os.path.isfile({p})", "not os.path.exists({p})"))
    # a raise that is reached exactly when the base URL is empty / offline mode is on, before the transfer (guard facts: polarity- and arm-insensitive); a helper method called before the
    # transfer with the base URL is looked into as well
    ctxs, opaque = verification_contexts(ldr, D, dd, nd[0], {"url": ddp[1]}, before=True, always_self=True)
    xf = lambda x: pat.fact_nodes(x, path_sensitive=False)  # noqa: E731 - the explicit branch conditions of the raise
    found = {"url": None, "offline": None}
    tests = set()
    for f_, names, ifs in ctxs:
        gf = cfg_of(f_)
        for x in [x for n in ifs for x in ast.walk(n) if isinstance(x, ast.Raise) and (f_ is not dd or x.lineno < nd[0].lineno)]:
            tests |= {u(t_) for t_ in xf(x)}
            if not xf(x) or not raises_on_all_paths(gf, [gf.node_of(x)]):
                continue
            if "url" in names and all(pat.is_(t_, f"not {names['url']}") for t_ in xf(x)):
                found["url"] = found["url"] or x
            if all(pat.is_(t_, "self.offline") for t_ in xf(x)):
                found["offline"] = found["offline"] or x
    if all(found.values()):
        chk.ob("O14.3", "no base URL / offline mode raise before any transfer", True, found["url"], f"{sorted(tests)}")
    elif opaque:
        chk.unknown("O14.3", f"Downloader.download: the base-URL / offline guards are not in the method itself and `{short(opaque[0], 60)}` cannot be followed", opaque[0])
    else:
        chk.ob("O14.3", "no base URL / offline mode raise before any transfer", False, dd, f"guards found before the transfer: {sorted(tests)}")
    DC = ldr.cls("Decompressor")
    dc = method(ldr, DC, "decompress")
    dcp = params(dc, 4)
    idc = [n for n in walk_body(dc) if isinstance(n, ast.Call) and dotted(n.func) == "io.decompress"]
    if not idc:
        raise AnchorMissing("io.decompress call in Decompressor.decompress")
    post_checks(chk, "O14.3", ldr, DC, dc, idc[0], dcp[2], dcp[3], "decompressor: missing document file raises", "decompressor: size mismatch raises", ("not os.path.isfile({p})",))
    ib = source.bind_args(idc[0], io_.func("decompress"))
    ok = u(ib.get(params(io_.func("decompress"), 1)[0])) == dcp[1]
    chk.ob("O14.3", "decompressor works on the given archive", ok, idc[0], "")

    # ---- O14.4 state loop ---------------------------------------------------------------------------------------------------------------------------------
    chk.rule("O14.4", "prepare loop exits by break only under present and expected size; the offset-table step follows every normal loop exit (bundled variant: dominates `return True`); a line-count "
             "mismatch removes the table and raises; the optional line count is tested with `is not None` (0 lines is a mismatch)", 8,
             "a wrong-sized / partial / empty document file is accepted; readers use a stale offset table")
    P = ldr.cls("DocumentSetPreparator")
    pm = ldr.methods(P)
    pds = method(ldr, P, "prepare_document_set")
    gp = cfg_of(pds)
    wl = [n for n in walk_body(pds) if isinstance(n, ast.While)]
    if not wl:
        raise AnchorMissing("state loop in prepare_document_set")
    WL = wl[0]
    docv, archv, dsv = path_roles(pds)
    brks = [n for n in ast.walk(WL) if isinstance(n, ast.Break) and source.enclosing(n, (ast.While, ast.For)) is WL]
    # the normal exits of the loop and the condition under which each is taken: the negated loop test (`while not <done>:`) and every break with the facts that hold there (explicit
    # branches and passed guard clauses; predicates extracted into a one-expression method of the class are looked through). Decided on truth values: whenever the exit condition
    # holds, "the document file is present" and "it has the declared uncompressed size" hold — arm / polarity / operand order / extra conjuncts do not matter
    exits = []
    if not (isinstance(WL.test, ast.Constant) and WL.test.value is True):
        exits.append((WL, negate(WL.test)))
    for b_ in brks:
        fs = pat.fact_nodes(b_, stop=WL)
        exits.append((b_, ast.BoolOp(op=ast.And(), values=list(fs)) if len(fs) > 1 else (fs[0] if fs else ast.Constant(value=True))))
    is_present = lambda a: pat.is_(a, f"self.is_locally_available({docv})")  # noqa: E731

    def is_sized(a):
        m = pat.match(a, f"self.has_expected_size({docv}, E_s)")
        return m is not None and "uncompressed_size_in_bytes" in m["s"]

    if not exits:
        chk.unknown("O14.4", "prepare_document_set: the state loop has no normal exit (neither a loop condition nor a break)", WL)
    else:
        wrong, opaque = [], []
        for n_, cond in exits:
            cond = inline_predicates(cond, pm, keep=("is_locally_available", "has_expected_size"))
            if cond_implies(cond, [is_present, is_sized]):
                continue
            # a predicate over the document file that cannot be looked into (a method with more than a return expression, another object's method): not recognised, not wrong
            other = [a for a in atoms_of(cond) if not is_present(a) and not is_sized(a) and any(isinstance(x, ast.Call) for x in ast.walk(a)) and any(isinstance(x, ast.Name) and x.id in (docv, dsv) for x in ast.walk(a))
                     and not pat.is_(a, f"{dsv}.has_compressed_corpus()", f"{dsv}.has_uncompressed_corpus()", "self.is_locally_available(E_x)", "self.has_expected_size(E_x, E_y)")]
            (opaque if other else wrong).append((n_, cond))
        if opaque and not wrong:
            chk.unknown("O14.4", f"prepare_document_set: the exit condition `{short(opaque[0][1], 90)}` of the state loop uses a predicate over the document file that cannot be looked into", opaque[0][0])
        else:
            chk.ob("O14.4", "loop exits only when the document file is present and has the expected size", not wrong, wrong[0][0] if wrong else (brks[0] if brks else WL),
                   "" if not wrong else f"the loop is left under `{short(wrong[0][1], 100)}`, which does not imply a present document file of the declared uncompressed size")
    chk.ob("O14.4", "the loop has no other exit (while True, no return)", not any(isinstance(x, ast.Return) for x in source.walk_local(WL)), WL, "")
    # every call prepare_document_set makes, directly or through helper methods of the class / functions of the module, with the arguments in prepare_document_set's own terms
    preach = calls_through(ldr, pds, cls=P)
    in_loop = lambda n: any(x is WL for x in source.ancestors(n))  # noqa: E731
    cfo = method(ldr, P, "create_file_offset_table")
    # role 'the table step': every call of create_file_offset_table reached from the method. Behind the loop, or — `if <present and sized>: <build>; break` — inside it in front of the
    # exit: either way every normal path from the loop head to the method's end passes through one, and none of those inside the loop can be followed by another (re)creation of the
    # document file without a further build (every path from a decompress / download call to the end passes through a build as well)
    ot_all = [(c, bound_params(a_, k_, cfo), r_) for c, a_, k_, r_ in preach if last_attr(c.func) == "create_file_offset_table"]
    ot = [x for x in ot_all if not in_loop(x[2])] or ot_all
    if not ot:
        chk.ob("O14.4", "offset table built after the loop on every normal exit", False, pds, "no call of create_file_offset_table is reached from the method (the method and the helpers it calls were searched)")
    else:
        c, b_, r_ = ot[0]
        cp = params(cfo, 3)
        bn_ = [gp.node_of(x[2]) for x in ot]
        ok = gp.must_pass(gp.node_of(WL), bn_, normal_only=True) and all(u(x[1].get(cp[1])) == docv and u(x[1].get(cp[2])).endswith(".number_of_lines") for x in ot)
        d_ = ""
        if ok and any(in_loop(x[2]) for x in ot):
            recr = [r2 for c2, _a, _k, r2 in preach if last_attr(c2.func) in ("decompress", "download") and isinstance(c2.func, ast.Attribute) and is_self_attr(c2.func.value) and in_loop(r2)]
            ok = all(gp.must_pass(gp.node_of(r2), bn_, normal_only=True) for r2 in recr)
            d_ = "" if ok else "the table is built inside the state loop and the document file can be (re)created afterwards without another build"
        chk.ob("O14.4", "offset table built after the loop on every normal exit", ok, r_, d_)
    # what the loop does otherwise: decompress a valid archive, else download to the right target with the right size
    dcm = method(ldr, ldr.cls("Decompressor"), "decompress")
    dcmp = params(dcm, 3)
    dcs = [(c, bound_params(a_, k_, dcm), r_) for c, a_, k_, r_ in preach if last_attr(c.func) == "decompress" and isinstance(c.func, ast.Attribute) and is_self_attr(c.func.value) and in_loop(r_)]
    if not dcs:
        chk.unknown("O14.4", "prepare_document_set: the call of <decompressor>.decompress inside the state loop cannot be located", WL)
    else:
        c, b_, r_ = dcs[0]
        ok = [u(b_.get(dcmp[1])), u(b_.get(dcmp[2]))] == [archv, docv]
        if ok:
            fs = [a for f_ in pat.fact_nodes(r_, stop=WL) for a in conjuncts(inline_predicates(f_, pm, keep=("is_locally_available", "has_expected_size")))]
            szf = [m_ for m_ in (pat.match(f_, f"self.has_expected_size({archv}, E_s)") for f_ in fs) if m_ is not None]
            ok = any(pat.is_(f_, f"self.is_locally_available({archv})") for f_ in fs) and any("compressed_size_in_bytes" in m_["s"] and "uncompressed" not in m_["s"] for m_ in szf)
        if not ok and r_ is not c:
            chk.unknown("O14.4", f"prepare_document_set: decompress is reached through `{short(r_, 60)}`; the conditions inside that helper are not followed", r_)
        else:
            chk.ob("O14.4", "an archive is decompressed only if present with its expected (compressed) size", ok, c, "")
    dwm = method(ldr, ldr.cls("Downloader"), "download")
    dwp = params(dwm, 4)
    dws = [(c, bound_params(a_, k_, dwm), r_) for c, a_, k_, r_ in preach if last_attr(c.func) == "download" and isinstance(c.func, ast.Attribute) and is_self_attr(c.func.value) and in_loop(r_)]
    if not dws:
        chk.unknown("O14.4", "prepare_document_set: the call of <downloader>.download inside the state loop cannot be located", WL)
    else:
        # roles: the values bound to download()'s target-path and expected-size parameters. Each is either written at the call or a local assigned in the arms of the loop; the
        # alternatives are paired arm by arm (same explicit guards) and every pair must be archive <-> compressed size or document <-> uncompressed size
        good = {(archv, True), (docv, False)}
        seen, odd = set(), []

        # (Alternatives: locals assigned in the arms, pairs unpacked from / fields read off the record a helper method returns, all followed by data flow)
        alternatives = Alternatives(ldr, P, WL, keep=(archv, docv, dsv)).table

        for c, b_, r_ in dws:
            t_, z_ = b_.get(dwp[2]), b_.get(dwp[3])
            if t_ is None or z_ is None:
                odd.append(c)
                continue
            ta, za = alternatives(t_), alternatives(z_)
            keys = (set(ta) | set(za)) - {None}
            for k in keys or {None}:
                tv_, zv_ = ta.get(k, ta.get(None)), za.get(k, za.get(None))
                if tv_ is None or zv_ is None:
                    continue
                if tv_ not in (archv, docv) or "size_in_bytes" not in zv_:
                    odd.append(c)
                    continue
                seen.add((tv_, "uncompressed" not in zv_ and "compressed" in zv_))
        if seen - good:
            chk.ob("O14.4", "download target and expected size are paired (archive <-> compressed size, document <-> uncompressed size)", False, dws[0][0],
                   f"pairs found: {sorted((t_, 'compressed size' if z_ else 'uncompressed size') for t_, z_ in seen)}")
        elif odd or seen != good:
            chk.unknown("O14.4", f"prepare_document_set: the (target, expected size) pairs handed to download cannot all be told: {sorted(seen)}", dws[0][0])
        else:
            chk.ob("O14.4", "download target and expected size are paired (archive <-> compressed size, document <-> uncompressed size)", True, dws[0][0], "")
    hs = method(ldr, P, "has_expected_size")
    hp = params(hs, 3)
    # evaluated (fn_result: guard clauses, temporaries, either operand order read the same) on representative (declared, measured) pairs: true iff undeclared or exactly equal; the
    # measured value is os.path.getsize(<file parameter>) — anything else it consults cannot be evaluated
    try:
        wrong = []
        for e_, m_, mism in _MISMATCH:
            if bool(fn_result(hs, {hp[2]: e_, f"os.path.getsize({hp[1]})": m_})) != (not mism):
                wrong.append(f"{hp[2]}={e_!r} vs {m_!r} on disk: {'accepted' if mism else 'rejected'}")
        chk.ob("O14.4", "has_expected_size: undeclared size or exact match", not wrong, hs, "; ".join(wrong))
    except CannotEval as x:
        chk.unknown("O14.4", f"has_expected_size cannot be evaluated on (declared size, os.path.getsize({hp[1]})): {x}", hs)
    ila = method(ldr, P, "is_locally_available")
    ip_ = params(ila, 2)[1]
    try:
        ok = all(fn_result(ila, {f"os.path.isfile({ip_})": v_}) is v_ for v_ in (True, False))
        chk.ob("O14.4", "is_locally_available: a regular file exists", ok, ila, "")
    except CannotEval as x:
        chk.unknown("O14.4", f"is_locally_available cannot be evaluated on os.path.isfile({ip_}): {x}", ila)
    line_count_rule(chk, "O14.4", ldr)
    pb = method(ldr, P, "prepare_bundled_document_set")
    gb = cfg_of(pb)
    rt = [n for n in walk_body(pb) if isinstance(n, ast.Return) and source.is_const(n.value, True)]
    otb = [r_ for c, a_, k_, r_ in calls_through(ldr, pb, cls=P) if last_attr(c.func) == "create_file_offset_table"]
    if not rt or not otb:
        chk.unknown("O14.4", "prepare_bundled_document_set: `return True` / the offset-table step cannot be located", pb)
    else:
        bdoc, _, _ = path_roles(pb)
        present_b = lambda a: pat.is_(a, f"self.is_locally_available({bdoc})")  # noqa: E731
        sized_b = lambda a: pat.match(a, f"self.has_expected_size({bdoc}, E_s)") is not None  # noqa: E731
        ok = all(gb.dominated_by_nodes(gb.node_of(r_), [gb.node_of(o) for o in otb]) for r_ in rt)
        for r_ in rt:
            fs = pat.fact_nodes(r_)
            cond = inline_predicates(ast.BoolOp(op=ast.And(), values=list(fs)) if len(fs) > 1 else (fs[0] if fs else ast.Constant(value=True)), pm, keep=("is_locally_available", "has_expected_size"))
            ok = ok and cond_implies(cond, [present_b, sized_b])
        chk.ob("O14.4", "bundled: `return True` only for a present, right-sized file, after the offset table was built", ok, rt[0], "")

    # ---- O14.5 format dispatch -------------------------------------------------------------------------------------------------------------------------------
    chk.rule("O14.5", "every extension of the supported-archive table has a branch in decompress(); multi-dot extensions are special-cased in splitext(); unknown extensions raise; the library "
             "fallback follows a failed (or unavailable) external decompressor on every path", 11,
             "a supported archive type is rejected / silently not decompressed; a corrupt archive or crashing tool yields an empty document file without error")
    tbl = io_.module_constant("SUPPORTED_ARCHIVE_FORMATS")
    if not isinstance(tbl, (ast.List, ast.Tuple, ast.Set)):
        raise AnchorMissing("SUPPORTED_ARCHIVE_FORMATS table")
    exts = [e.value for e in tbl.elts if isinstance(e, ast.Constant)]
    dec = io_.func("decompress")
    # role: the local holding the archive's extension = the second element of splitext(<archive parameter>) (tuple-unpack position 1, or subscript [1])
    extv = None
    for n in walk_body(dec):
        if isinstance(n, ast.Assign) and len(n.targets) == 1:
            t_, v_ = n.targets[0], n.value
            if isinstance(v_, ast.Call) and last_attr(v_.func) == "splitext" and isinstance(t_, ast.Tuple) and len(t_.elts) == 2 and isinstance(t_.elts[1], ast.Name):
                extv = t_.elts[1].id
            elif isinstance(v_, ast.Subscript) and isinstance(v_.value, ast.Call) and last_attr(v_.value.func) == "splitext" and source.is_const(v_.slice, 1) and isinstance(t_, ast.Name):
                extv = t_.id
    if extv is None:
        raise AnchorMissing("local receiving the extension from splitext() in io.decompress")
    extvs = {extv}
    for _ in range(3):  # plain aliases of that local (single-assignment copies)
        extvs |= {k for k, v_ in local_defs(dec).items() if isinstance(v_, ast.Name) and v_.id in extvs}
    handled = set()
    for n in walk_body(dec):
        if isinstance(n, ast.If):
            c = oriented(n.test, lambda x: u(x) in extvs)
            if c:
                if c[1] == "==" and isinstance(c[2], ast.Constant):
                    handled.add(c[2].value)
                elif c[1] == "in" and isinstance(c[2], (ast.List, ast.Tuple, ast.Set)):
                    handled |= {e.value for e in c[2].elts if isinstance(e, ast.Constant)}

    arch = params(dec, 1)[0]
    tbls = module_tables(io_)

    def dispatch(value):
        """outcome of decompress() for one concrete extension: its statements evaluated (tables.decide; every test by minieval with the extension local := value, module-level tables
        bound to their literal keys, locals assigned on the way substituted); None if the body has a shape beyond the evaluator."""
        cur = {}

        def atom(n, env):
            if isinstance(n, (ast.BoolOp, ast.UnaryOp)):
                return None
            return bool(ev(source.inline_node(n, {k: v for k, v in cur.items() if v is not None and k not in env}), env))

        def on_stmt(s_, env, b):
            cur.clear()
            cur.update(b)
            return "skip" if is_logging_stmt(s_) else None

        try:
            return tables.decide(unrolled(dec.body), atom, dict(tbls, **{k: value for k in extvs}), on_stmt=on_stmt)
        except (tables.Unsupported, UnknownAtom, CannotEval):
            return None

    def acts_on_archive(o):
        """the calls on the path decompress() takes for an extension that are handed the archive (directly or inside an argument expression) — the extension look-up itself aside"""
        return [e for e in o.effects if isinstance(e, ast.Call) and last_attr(e.func) != "splitext" and any(isinstance(x, ast.Name) and x.id == arch for a in list(e.args) + [k.value for k in e.keywords] for x in ast.walk(a))]

    for e in exts:
        o = dispatch(e)
        if o is None:
            # the chain cannot be evaluated: an explicit comparison of the extension local with this literal is accepted, anything else is 'not recognised'
            if e in handled:
                chk.ob("O14.5", f"extension {e} has a branch in decompress()", True, dec, "", key=f"{_I}:decompress:ext:{e}")
            else:
                chk.unknown("O14.5", f"io.decompress: what happens for the supported extension {e} cannot be evaluated (dispatch of an unrecognised shape)", dec)
            continue
        ok = o.kind != "raise" and bool(acts_on_archive(o))
        chk.ob("O14.5", f"extension {e} has a branch in decompress()", ok, dec,
               "" if ok else (f"decompress() ends with `{o.text()[:80]}` for this extension" if o.kind == "raise" else "no call on this path is handed the archive: it is silently not decompressed"),
               key=f"{_I}:decompress:ext:{e}")
    se = io_.func("splitext")
    sp_ = params(se, 1)[0]
    multi = [e for e in exts if e.count(".") > 1]

    def split_of(name):
        """(root, extension) splitext() yields for a concrete file name: its statements evaluated by tables.decide, tests and the returned pair by minieval extended with string slices
        and the pure os.path functions (ev_str); CannotEval when the body is beyond the evaluator (a loop over a suffix table, a regular expression)."""
        cur = {}
        inl = lambda n: source.inline_node(n, {k: v for k, v in cur.items() if v is not None})  # noqa: E731

        def on_stmt(s_, env, b):
            cur.clear()
            cur.update(b)
            return "skip" if is_logging_stmt(s_) else None

        try:
            o = tables.decide(unrolled(se.body), lambda n, env: None if isinstance(n, (ast.BoolOp, ast.UnaryOp)) else bool(ev_str(inl(n), dict(tbls, **{sp_: name}))), {}, on_stmt=on_stmt)
            if o.kind != "return" or o.value is None:
                raise CannotEval(f"splitext ends with `{o.text()[:40]}`")
            r = ev_str(inl(o.value), dict(tbls, **{sp_: name}))
        except (tables.Unsupported, UnknownAtom, CannotEval) as x:
            # a search loop over a suffix table (`for e in <module-level table>: if name.endswith(e): return name.removesuffix(e), e`): the body is interpreted statement by statement
            # (exec_small: loops, early returns) on the concrete name, the module-level tables bound to their evaluated values
            try:
                kind, r, _ = exec_small(se.body, dict(tbls, **{sp_: name}), evalf=ev_str)
            except CannotEval as x2:
                raise CannotEval(f"{x}; interpreted: {x2}")
            if kind != "return":
                raise CannotEval(f"splitext ends with `{kind}` for {name!r}")
        if not (isinstance(r, (list, tuple)) and len(r) == 2):
            raise CannotEval("splitext does not return a pair")
        return tuple(r)

    try:
        # decided on values: for every multi-dot extension e of the table and representative base names b (dots in the directory and in the name), splitext(b + e) == (b, e)
        bases = (_REP, "/data/corp.us/documents", "documents")
        got = {e: [split_of(b_ + e) for b_ in bases] for e in multi}
        for e in multi:
            chk.ob("O14.5", f"multi-dot extension {e} special-cased in splitext()", all(r[1] == e for r in got[e]), se,
                   f"splitext({bases[0] + e!r}) -> {got[e][0]!r}", key=f"{_I}:splitext:{e}")
        for e in multi:
            chk.ob("O14.5", f"splitext cuts {e} at its own length", all(r == (b_, e) for r, b_ in zip(got[e], bases)), se, f"splitext({bases[0] + e!r}) -> {got[e][0]!r}")
    except CannotEval as x_:
        # not evaluable: the explicit `endswith(<literal>)` special cases and their slices are read off the code; what cannot be found that way is 'not recognised'
        special = {c.args[0].value for c in source.calls_in(se, attr="endswith") if c.args and isinstance(c.args[0], ast.Constant)}
        for e in multi:
            if e in special:
                chk.ob("O14.5", f"multi-dot extension {e} special-cased in splitext()", True, se, "", key=f"{_I}:splitext:{e}")
            else:
                chk.unknown("O14.5", f"io.splitext cannot be evaluated ({x_}) and has no explicit endswith({e!r}) case", se)
        for n in walk_body(se):
            rv_ = returned(n) if isinstance(n, ast.Return) else None
            if isinstance(rv_, ast.Tuple) and len(rv_.elts) == 2:
                # the suffix test that holds (positively) at this return, whichever arm it sits in
                pos = [f_ for f_ in pat.fact_nodes(n) if isinstance(f_, ast.Call) and last_attr(f_.func) == "endswith" and f_.args and source.is_const(f_.args[0]) and isinstance(f_.args[0].value, str)]
                if len(pos) == 1:
                    t = pos[0]
                    k = len(t.args[0].value)
                    ok = u(rv_.elts[0]).endswith((f"[0:-{k}]", f"[:-{k}]")) and u(rv_.elts[1]).endswith(f"[-{k}:]")
                    chk.ob("O14.5", f"splitext cuts {t.args[0].value} at its own length", ok, n, u(rv_))
    # evaluated: extensions outside the table (and the empty one) end in a raise; falls back to the shape of the chain when it cannot be evaluated
    outs = [dispatch(x) for x in (".unsupported", "", ".tar.xz")]
    if all(o is not None for o in outs):
        chk.ob("O14.5", "unknown extension raises", all(o.kind == "raise" for o in outs), dec, "")
    else:
        last = dec.body[-1]
        while isinstance(last, ast.If) and last.orelse:
            if len(last.orelse) == 1 and isinstance(last.orelse[0], ast.If):
                last = last.orelse[0]
            else:
                break
        if isinstance(last, ast.If) and last.orelse and isinstance(last.orelse[-1], ast.Raise):
            chk.ob("O14.5", "unknown extension raises", True, dec, "")
        else:
            chk.unknown("O14.5", "io.decompress: what happens for an extension outside the table can neither be evaluated nor read off a final `else: raise`", dec)
    dm = io_.func("_do_decompress_manually")
    io_.func("_do_decompress_manually_with_lib"), io_.func("_do_decompress_manually_external")  # the two roles exist (AnchorMissing otherwise); their call sites are looked for below
    gm = cfg_of(dm)
    mdefs = local_defs(dm)
    is_ext = lambda t: isinstance(t, ast.Call) and last_attr(t.func) == "_do_decompress_manually_external"  # noqa: E731
    # role 'the library fallback': the call of _do_decompress_manually_with_lib made by the function itself or — an extracted `_fallback(...)` — the call of the helper function of the
    # module through which it is reached
    lib_calls = []
    for c_, _a, _k, r_ in calls_through(io_, dm):
        if last_attr(c_.func) == "_do_decompress_manually_with_lib" and not any(r_ is x for x in lib_calls):
            lib_calls.append(r_)
    lib = [gm.node_of(n) for n in lib_calls]
    # a return that is reached only when the external run reported success: the call itself, or a local holding its result, is a (positive) guard fact
    okret = [gm.node_of(n) for n in walk_body(dm) if isinstance(n, ast.Return) and any(is_ext(t) or (isinstance(t, ast.Name) and is_ext(mdefs.get(t.id))) for t in pat.fact_nodes(n))]
    ok = bool(lib) and gm.must_pass(gm.entry, lib + okret, normal_only=True)
    path = None
    if not ok:
        p = gm.find_path(gm.entry, gm.exit, avoid=lib + okret, edge_ok=gm.normal_edge)
        path = gm.describe_path(p) if p else None
    if ok or not lib:
        chk.ob("O14.5", "library fallback (or a successful external run) on every path", ok, dm, "" if ok else "a path ends without having decompressed anything: " + " ".join(path or []), path=path)
    else:
        # some path of the control-flow graph avoids both — it need not be a feasible one (a flag `done = <tool>` set after the successful run and tested in front of the fallback
        # correlates the two branches). Decided on VALUES: the function is evaluated once per world (tool present?, external run succeeded?); the world that ends normally with
        # neither the library call on its path nor a successful external run is the counterexample
        try:
            wrong = fallback_worlds(dm, is_ext, lambda c: any(c is x for x in lib_calls))
            chk.ob("O14.5", "library fallback (or a successful external run) on every path", not wrong, dm,
                   "evaluated per (tool present, external run succeeded)" + ("" if not wrong else ": nothing is decompressed when " + "; ".join(wrong[:3])))
        except CannotEval as x:
            chk.unknown("O14.5", f"_do_decompress_manually: a path of the control-flow graph avoids the library fallback and the function cannot be evaluated per outcome of the external run ({x})", dm)
    dme = io_.func("_do_decompress_manually_external")
    rets = [n for n in walk_body(dme) if isinstance(n, ast.Return)]
    in_handler = lambda r: source.enclosing(r, ast.ExceptHandler) is not None  # noqa: E731
    if rets and all(isinstance(r.value, ast.Constant) and isinstance(r.value.value, bool) for r in rets) and gdl_has_normal_return(dme):
        ok = any(r.value.value is False and in_handler(r) for r in rets) and any(r.value.value is True for r in rets) and not any(r.value.value is True and in_handler(r) for r in rets)
        chk.ob("O14.5", "external decompressor reports failure as False", ok, dme, "")
    else:
        chk.unknown("O14.5", "_do_decompress_manually_external: the result is not reported through `return True` / `return False` statements (what a failed run yields cannot be told)", dme)
    runc = [n for n in walk_body(dme) if isinstance(n, ast.Call) and dotted(n.func) == "subprocess.run"]
    if not runc:
        chk.unknown("O14.5", "_do_decompress_manually_external: the subprocess.run(...) call cannot be located", dme)
    else:
        ck = arg_of(runc[0], None, "check")
        chk.ob("O14.5", "external decompressor failures are detected (check=True)", ck is not None and source.is_const(ck, True), runc[0], "")

    # ---- O14.6 offset table protocol ---------------------------------------------------------------------------------------------------------------------------------
    offset_table_protocol(chk, io_, "O14.6")

    # ---- O14.8 the offset table is published by rename only (F24) / O14.9 a (re)created document file invalidates its table (F25) ------------------------------------
    roles = offset_table_publication(chk, repo, io_, "O14.8")
    recreated_file_invalidates_table(chk, io_, ldr, roles, "O14.9")

    # ---- O14.10 every used corpus reaches a preparation task (and keeps it until the task runs) -----------------------------------------------------------------------------------
    every_corpus_reaches_a_task(chk, repo, ldr, "O14.10")
    prepared_corpora_are_those_of_the_running_challenge(chk, repo, ldr, "O14.11")

    # ---- O14.7 advisory (superseded by O14.8 once a failing history was shown, F24; kept for a tree on which no rename exists anywhere) -----------------------------------
    cf_ = io_.methods(io_.cls("FileOffsetTable")).get("create_for_data_file")
    if cf_ is not None and not any(isinstance(n, ast.Call) and dotted(n.func) in _RENAMES for n in ast.walk(io_.tree)):
        chk.adv("O14.7", "the offset table (whose mtime later means 'valid') is written under its final name, not via temp + rename (see O14.8)", cf_)


from sa.selftest import V  # noqa: E402

_FC_OLD = ('        prior_offset = 0\n        prior_remaining_lines = target_line_number\n\n        assert self.offset_file is not None, "File offset table must be opened in a context manager block."\n'
           '        for line in self.offset_file:\n            line_number, offset_in_bytes = (int(i) for i in line.strip().split(";"))\n            if line_number <= target_line_number:\n'
           '                prior_offset = offset_in_bytes\n                prior_remaining_lines = target_line_number - line_number\n            else:\n                break\n\n'
           '        return prior_offset, prior_remaining_lines\n')
_FC_NEW = ('        assert self.offset_file is not None, "File offset table must be opened in a context manager block."\n        closest_line_number = 0\n        closest_offset = 0\n'
           '        for line in self.offset_file:\n            line_number, offset_in_bytes = (int(i) for i in line.strip().split(";"))\n            if line_number > target_line_number:\n'
           '                break\n            closest_line_number = line_number\n            closest_offset = offset_in_bytes\n\n'
           '        return closest_offset, target_line_number - closest_line_number\n')
_DH_OLD = ('def download_http(url, local_path, expected_size_in_bytes=None, progress_indicator=None, *, sleep=time.sleep):\n    logger = logging.getLogger(__name__)\n'
           '    for i in range(HTTP_DOWNLOAD_RETRIES + 1):\n')
_DH_NEW = ('def download_http(url, local_path, expected_size_in_bytes=None, progress_indicator=None, *, sleep=time.sleep, retries=None, retry_delay=None):\n'
           '    logger = logging.getLogger(__name__)\n    if retries is None:\n        retries = HTTP_DOWNLOAD_RETRIES\n    if retry_delay is None:\n        retry_delay = 5\n'
           '    if retries < 0:\n        raise ValueError(f"retries must not be negative but was [{retries}]")\n    for i in range(retries + 1):\n')

_DM_OLD = ('    if is_executable(decompressor_bin):\n        if _do_decompress_manually_external(target_directory, filename, base_path_without_extension, decompressor_args):\n            return\n    else:\n')
_DM_FLAG = ('    decompressed_with = None\n    if is_executable(decompressor_bin):\n        if _do_decompress_manually_external(target_directory, filename, base_path_without_extension, decompressor_args):\n'
            '            decompressed_with = decompressor_bin\n    else:\n')
_DM_LIB_OLD = '    _do_decompress_manually_with_lib(target_directory, filename, decompressor_lib(filename))\n'
_DM_TERNARY = ('    tool_ok = _do_decompress_manually_external(target_directory, filename, base_path_without_extension, decompressor_args) if is_executable(decompressor_bin) else False\n'
               '    if not is_executable(decompressor_bin):\n')
_DM_LIB_FLAG = ('    if decompressed_with is None:\n        _do_decompress_manually_with_lib(target_directory, filename, decompressor_lib(filename))\n        decompressed_with = "standard library"\n'
                '    logging.getLogger(__name__).info("Decompressed [%s] with [%s].", filename, decompressed_with)\n')
_SE_OLD = ('    if file_name.endswith(".tar.gz"):\n        return file_name[0:-7], file_name[-7:]\n    elif file_name.endswith(".tar.bz2"):\n        return file_name[0:-8], file_name[-8:]\n    else:\n'
           '        return os.path.splitext(file_name)\n')
_SE_LOOP = ('    for extension in _COMPOUND_ARCHIVE_EXTENSIONS:\n        if file_name.endswith(extension):\n            return file_name.removesuffix(extension), extension\n    return os.path.splitext(file_name)\n')
_SAF_OLD = 'SUPPORTED_ARCHIVE_FORMATS = [".zip", ".bz2", ".gz", ".tar", ".tar.gz", ".tgz", ".tar.bz2", ".zst"]\n'
_SAF_DERIVED = '_COMPOUND_ARCHIVE_EXTENSIONS = tuple(ext for ext in SUPPORTED_ARCHIVE_FORMATS if ext.count(".") > 1)\n'
_INV_OLD = '        if os.path.exists(f"{document_file_path}.offset"):\n            io.remove_file_offset_table(document_file_path)\n'
_INV_MISSING_OK = '        io.remove_file_offset_table(document_file_path, missing_ok=True)\n'
_INV_OBJ = '        if io.FileOffsetTable.read_for_data_file(document_file_path).exists():\n            io.FileOffsetTable.remove(document_file_path)\n'
_RM_OLD = ('    @staticmethod\n    def remove(data_file_path: str) -> None:\n        """\n        Removes a file offset table for the provided data path.\n\n'
           '        :param data_file_path: The absolute path to the data file for which the file offset table should be deleted.\n        """\n        os.remove(f"{data_file_path}.offset")\n')
_RM_MISSING_OK = ('    @staticmethod\n    def remove(data_file_path: str, missing_ok: bool = False) -> None:\n        try:\n            os.remove(f"{data_file_path}.offset")\n        except FileNotFoundError:\n'
                  '            if not missing_ok:\n                raise\n')
_RM_CLS = '    @classmethod\n    def remove(cls, data_file_path: str) -> None:\n        os.remove(cls.read_for_data_file(data_file_path).offset_table_path)\n'
_RMW_OLD = ('def remove_file_offset_table(data_file_path: str) -> None:\n    """\n\n    Attempts to remove the file offset table for the provided data path.\n\n'
            '    :param data_file_path: The path to a text file that is readable by this process.\n    """\n    FileOffsetTable.remove(data_file_path)\n')
_RMW_MISSING_OK = 'def remove_file_offset_table(data_file_path: str, missing_ok: bool = False) -> None:\n    FileOffsetTable.remove(data_file_path, missing_ok=missing_ok)\n'

_TMP_OLD = '    tmp_data_set_path = local_path + ".tmp"\n'
_GEN_OLD = ('        for corpus in used_corpora(track):\n            params = {"cfg": self.cfg, "track": track, "corpus": corpus, "preparator": prep}\n'
            '            yield DefaultTrackPreparator.prepare_docs, params\n')

_RL_OLD = ('    for i in range(HTTP_DOWNLOAD_RETRIES + 1):\n        try:\n            return _download_http(url, local_path, expected_size_in_bytes, progress_indicator)\n'
           '        except (urllib3.exceptions.ProtocolError, urllib3.exceptions.ReadTimeoutError) as exc:\n            if i == HTTP_DOWNLOAD_RETRIES:\n                raise\n'
           '            logger.warning("Retrying after %s", exc)\n            sleep(5)\n            continue\n')
# benign b13: N attempts that are allowed to fail, then one whose error reaches the caller; the pause and the retried classes are module-level names
_RL_TAIL = ('    for _ in range(HTTP_DOWNLOAD_RETRIES):\n        try:\n            return _download_http(url, local_path, expected_size_in_bytes, progress_indicator)\n'
            '        except _RETRYABLE_HTTP_ERRORS as exc:\n            logger.warning("Retrying after %s", exc)\n            sleep(HTTP_DOWNLOAD_RETRY_PAUSE_SECONDS)\n'
            '    return _download_http(url, local_path, expected_size_in_bytes, progress_indicator)\n')
_RC_OLD = 'HTTP_DOWNLOAD_RETRIES = 10\n'
_RC_NEW = ('HTTP_DOWNLOAD_RETRIES = 10\nHTTP_DOWNLOAD_RETRY_PAUSE_SECONDS = 5\n_RETRYABLE_HTTP_ERRORS = (urllib3.exceptions.ProtocolError, urllib3.exceptions.ReadTimeoutError)\n')
_RL_WHILE = ('    attempt = 0\n    while True:\n        attempt += 1\n        try:\n            return _download_http(url, local_path, expected_size_in_bytes, progress_indicator)\n'
             '        except (urllib3.exceptions.ProtocolError, urllib3.exceptions.ReadTimeoutError) as exc:\n            if attempt > HTTP_DOWNLOAD_RETRIES:\n                raise\n'
             '            logger.warning("Retrying after %s (attempt %d)", exc, attempt)\n            sleep(5)\n')
# benign b12: the choice of the file to fetch and the download with its error translation are helper methods; the (path, declared size) pair travels as a NamedTuple
_DT_IMPORT_OLD = 'from typing import Callable, Optional\n'
_DT_IMPORT_NEW = 'from typing import Callable, NamedTuple, Optional\n'
_DT_CLS_OLD = 'class DocumentSetPreparator:\n    def __init__(self, track_name, downloader, decompressor):\n'
_DT_CLS_NEW = ('class DownloadTarget(NamedTuple):\n    path: str\n    expected_size: Optional[int]\n\n\nclass DocumentSetPreparator:\n'
               '    def download_target(self, document_set, doc_path, archive_path):\n        if document_set.has_compressed_corpus():\n'
               '            return DownloadTarget(archive_path, document_set.compressed_size_in_bytes)\n        if document_set.has_uncompressed_corpus():\n'
               '            return DownloadTarget(doc_path, document_set.uncompressed_size_in_bytes)\n'
               '        raise exceptions.RallyAssertionError(f"Track {self.track_name} specifies documents but no corpus")\n\n'
               '    def download_corpus_file(self, document_set, target):\n        try:\n            self.downloader.download(document_set.base_url, target.path, target.expected_size)\n'
               '        except exceptions.DataError as e:\n            if e.message == "Cannot download data because no base URL is provided." and self.is_locally_available(target.path):\n'
               '                raise exceptions.DataError(f"[{target.path}] is present but does not have the expected size of [{target.expected_size}] bytes.") from None\n            raise\n\n'
               '    def __init__(self, track_name, downloader, decompressor):\n')
_DT_ARM_OLD = ('                if document_set.has_compressed_corpus():\n                    target_path = archive_path\n                    expected_size = document_set.compressed_size_in_bytes\n'
               '                elif document_set.has_uncompressed_corpus():\n                    target_path = doc_path\n                    expected_size = document_set.uncompressed_size_in_bytes\n'
               '                else:\n                    # this should not happen in practice as the JSON schema should take care of this\n'
               '                    raise exceptions.RallyAssertionError(f"Track {self.track_name} specifies documents but no corpus")\n\n'
               '                try:\n                    self.downloader.download(document_set.base_url, target_path, expected_size)\n                    self.invalidate_file_offset_table(doc_path)\n'
               '                except exceptions.DataError as e:\n                    if e.message == "Cannot download data because no base URL is provided." and self.is_locally_available(target_path):\n'
               '                        raise exceptions.DataError(\n                            f"[{target_path}] is present but does not have the expected "\n'
               '                            f"size of [{expected_size}] bytes and it cannot be downloaded "\n                            f"because no base URL is provided."\n'
               '                        ) from None\n                    raise\n')
_DT_ARM_NEW = ('                self.download_corpus_file(document_set, self.download_target(document_set, doc_path, archive_path))\n                self.invalidate_file_offset_table(doc_path)\n')
_DT_ARM_PAIR = ('                target_path, expected_size = self.download_target(document_set, doc_path, archive_path)\n'
                '                self.downloader.download(document_set.base_url, target_path, expected_size)\n                self.invalidate_file_offset_table(doc_path)\n')

_UC_CH_OLD = '        challenge = t.selected_challenge_or_default\n'
_UC_BODY_OLD = ('                if hasattr(param_source, "corpora"):\n                    for c in param_source.corpora:\n'
                '                        # We might have the same corpus *but* they contain different doc sets. Therefore also need to union over doc sets.\n'
                '                        corpora[c.name] = corpora.get(c.name, c).union(c)\n')
_UC_SUB_OLD = '            for sub_task in task:\n                param_source = operation_parameters(t, sub_task)\n'

VARIANTS = [
    V("F14: truthiness on the line count", "break", _L, "        if lines_read is not None and lines_read != expected_number_of_lines:", "        if lines_read and lines_read != expected_number_of_lines:", "O14.4"),
    V("write to the final path", "break", _N, "            expected_size_in_bytes = download_http(url, tmp_data_set_path, expected_size_in_bytes, progress_indicator)", "            expected_size_in_bytes = download_http(url, local_path, expected_size_in_bytes, progress_indicator)", "O14.1"),
    V("rename before the size check", "break", _N, "    download_size = os.path.getsize(tmp_data_set_path)\n    if expected_size_in_bytes", "    os.rename(tmp_data_set_path, local_path)\n    download_size = os.path.getsize(local_path)\n    if expected_size_in_bytes", "O14.1"),
    V("handler does not remove tmp", "break", _N, "    except BaseException:\n        if os.path.isfile(tmp_data_set_path):\n            os.remove(tmp_data_set_path)\n        raise", "    except BaseException:\n        raise", "O14.1"),
    V("range(N)", "break", _N, "    for i in range(HTTP_DOWNLOAD_RETRIES + 1):", "    for i in range(HTTP_DOWNLOAD_RETRIES):", "O14.2"),
    V("seed m2: only 4xx/5xx rejected", "break", _N, "        if r.status > 299:", "        if r.status >= 400:", "O14.2"),
    V("retry on any exception", "break", _N, "        except (urllib3.exceptions.ProtocolError, urllib3.exceptions.ReadTimeoutError) as exc:", "        except Exception as exc:", "O14.2"),
    V("post-download size test dropped", "break", _L, "        if size_in_bytes is not None and actual_size != size_in_bytes:\n            raise exceptions.DataError(\n                f\"[{target_path}] is corrupt. Downloaded", "        if False:\n            raise exceptions.DataError(\n                f\"[{target_path}] is corrupt. Downloaded", "O14.3"),
    V("URL error swallowed", "break", _L, "        except urllib.error.URLError as e:\n            raise exceptions.DataError(f\"Could not download [{data_url}] to [{target_path}].\") from e", "        except urllib.error.URLError as e:\n            self.logger.warning(\"Could not download [%s]\", data_url)", "O14.3"),
    V("break on presence only", "break", _L, "            if self.is_locally_available(doc_path) and self.has_expected_size(doc_path, document_set.uncompressed_size_in_bytes):\n                break", "            if self.is_locally_available(doc_path):\n                break", "O14.4"),
    V("offset table only on one branch", "break", _L, "                    raise\n\n        self.create_file_offset_table(doc_path, document_set.number_of_lines)", "                    raise\n\n        if archive_path:\n            self.create_file_offset_table(doc_path, document_set.number_of_lines)", "O14.4"),
    V("new extension in the table without a branch", "break", _I, "SUPPORTED_ARCHIVE_FORMATS = [\".zip\", \".bz2\", \".gz\", \".tar\", \".tar.gz\", \".tgz\", \".tar.bz2\", \".zst\"]", "SUPPORTED_ARCHIVE_FORMATS = [\".zip\", \".bz2\", \".gz\", \".tar\", \".tar.gz\", \".tgz\", \".tar.bz2\", \".zst\", \".xz\"]", "O14.5"),
    V("seed m3: library fallback only when the tool is missing", "break", _I, "            \"%s not found in PATH. Using standard library, decompression will take longer.\", decompressor_bin\n        )\n\n    _do_decompress_manually_with_lib(target_directory, filename, decompressor_lib(filename))",
      "            \"%s not found in PATH. Using standard library, decompression will take longer.\", decompressor_bin\n        )\n        _do_decompress_manually_with_lib(target_directory, filename, decompressor_lib(filename))", "O14.5"),
    V("seed m1: character offsets instead of tell()", "break", _I, "                        file_offset_table.add_offset(line_number, data_file.tell())", "                        file_offset_table.add_offset(line_number, line_number * len(line))", "O14.6"),
    V("offset recorded before the increment", "break", _I, "                        line_number += 1\n                        if line_number % 50000 == 0:\n                            file_offset_table.add_offset(line_number, data_file.tell())", "                        if line_number % 50000 == 0:\n                            file_offset_table.add_offset(line_number, data_file.tell())\n                        line_number += 1", "O14.6"),
    V("reader uses <", "break", _I, "            if line_number <= target_line_number:", "            if line_number < target_line_number:", "O14.6"),
    V("writer swaps the fields", "break", _I, "        print(f\"{line_number};{offset}\", file=self.offset_file)", "        print(f\"{offset};{line_number}\", file=self.offset_file)", "O14.6"),
    V("size check by truthiness (a declared size of 0 is skipped)", "break", _N, "    if expected_size_in_bytes is not None and download_size != expected_size_in_bytes:", "    if expected_size_in_bytes and download_size != expected_size_in_bytes:", "O14.1"),
    V("size check joined with `or` (an undeclared size is a mismatch)", "break", _N, "    if expected_size_in_bytes is not None and download_size != expected_size_in_bytes:", "    if expected_size_in_bytes is not None or download_size != expected_size_in_bytes:", "O14.1"),
    V("only short downloads are rejected", "break", _N, "    if expected_size_in_bytes is not None and download_size != expected_size_in_bytes:", "    if expected_size_in_bytes is not None and download_size < expected_size_in_bytes:", "O14.1"),
    V("last attempt's error is swallowed (re-raise one index early only)", "break", _N, "            if i == HTTP_DOWNLOAD_RETRIES:", "            if i == HTTP_DOWNLOAD_RETRIES - 1:", "O14.2"),
    V("304 accepted", "break", _N, "        if r.status > 299:", "        if r.status > 299 and r.status != 304:", "O14.2"),
    V("downloaded size compared with itself", "break", _L, "        actual_size = os.path.getsize(target_path)", "        actual_size = size_in_bytes", "O14.3"),
    V("has_expected_size by truthiness", "break", _L, "        return expected_size is None or os.path.getsize(file_name) == expected_size", "        return not expected_size or os.path.getsize(file_name) == expected_size", "O14.4"),
    V("has_expected_size accepts larger files", "break", _L, "        return expected_size is None or os.path.getsize(file_name) == expected_size", "        return expected_size is None or os.path.getsize(file_name) >= expected_size", "O14.4"),
    V("line count compared without the None guard", "break", _L, "        if lines_read is not None and lines_read != expected_number_of_lines:", "        if lines_read != expected_number_of_lines:", "O14.4"),
    V("download pair swapped", "break", _L, "                    target_path = archive_path\n                    expected_size = document_set.compressed_size_in_bytes", "                    target_path = archive_path\n                    expected_size = document_set.uncompressed_size_in_bytes", "O14.4"),
    V("empty-read test changed", "break", _I, "                        if len(line) == 0:\n                            break", "                        if len(line) == 1:\n                            break", "O14.6"),
    V("reader unpacks the fields in the other order", "break", _I, "            line_number, offset_in_bytes = (int(i) for i in line.strip().split(\";\"))", "            offset_in_bytes, line_number = (int(i) for i in line.strip().split(\";\"))", "O14.6"),
    # F24 (repair 98c805c): the offset table is built under a temporary name and published by rename
    V("F24: textual revert of 98c805c (table written under its final name)", "break", _I,
      "        final_path = file_offset_table.offset_table_path\n        file_offset_table.offset_table_path = f\"{final_path}.tmp\"\n        try:\n            with file_offset_table:\n                with open(data_file_path, encoding=\"utf-8\") as data_file:\n                    while True:\n                        line = data_file.readline()\n                        if len(line) == 0:\n                            break\n                        line_number += 1\n                        if line_number % 50000 == 0:\n                            file_offset_table.add_offset(line_number, data_file.tell())\n            os.replace(file_offset_table.offset_table_path, final_path)\n        except BaseException:\n            if os.path.exists(file_offset_table.offset_table_path):\n                os.remove(file_offset_table.offset_table_path)\n            raise\n        finally:\n            file_offset_table.offset_table_path = final_path\n",
      "        with file_offset_table:\n            with open(data_file_path, encoding=\"utf-8\") as data_file:\n                while True:\n                    line = data_file.readline()\n                    if len(line) == 0:\n                        break\n                    line_number += 1\n                    if line_number % 50000 == 0:\n                        file_offset_table.add_offset(line_number, data_file.tell())\n", "O14.8"),
    V("F24: the temporary name is never installed (the `with` opens the final name; the rename is a no-op)", "break", _I, "        file_offset_table.offset_table_path = f\"{final_path}.tmp\"\n", "        tmp_path = f\"{final_path}.tmp\"\n", "O14.8"),
    V("F24: the 'temporary' name is the final name", "break", _I, "        file_offset_table.offset_table_path = f\"{final_path}.tmp\"\n", "        file_offset_table.offset_table_path = f\"{final_path}\"\n", "O14.8"),
    V("F24: published before the table is complete (rename inside the writing block)", "break", _I,
      "                            file_offset_table.add_offset(line_number, data_file.tell())\n            os.replace(file_offset_table.offset_table_path, final_path)\n",
      "                            file_offset_table.add_offset(line_number, data_file.tell())\n                os.replace(file_offset_table.offset_table_path, final_path)\n", "O14.8"),
    V("F24: published by the failure handler too (an aborted build is renamed onto the final name)", "break", _I,
      "            if os.path.exists(file_offset_table.offset_table_path):\n                os.remove(file_offset_table.offset_table_path)\n            raise\n",
      "            if os.path.exists(file_offset_table.offset_table_path):\n                os.replace(file_offset_table.offset_table_path, final_path)\n            raise\n", "O14.8"),
    V("F24: the path attribute is reset to the final name before the `with` opens it", "break", _I,
      "        file_offset_table.offset_table_path = f\"{final_path}.tmp\"\n        try:\n", "        file_offset_table.offset_table_path = f\"{final_path}.tmp\"\n        tmp_path = file_offset_table.offset_table_path\n        file_offset_table.offset_table_path = final_path\n        try:\n", "O14.8"),
    V("F24: a second writer opens the .offset name directly", "break", _I, "        console.println(\"[OK]\")\n        return line_number\n",
      "        console.println(\"[OK]\")\n        with open(f\"{data_file_path}.offset\", \"at\") as extra:\n            extra.write(\"\")\n        return line_number\n", "O14.8"),
    # F25 (repair d8403e6): a (re)created document file invalidates its offset table
    V("F25: no invalidation after decompress (prepare_document_set)", "break", _L,
      "                self.decompressor.decompress(archive_path, doc_path, document_set.uncompressed_size_in_bytes)\n                self.invalidate_file_offset_table(doc_path)\n            else:\n                if document_set.has_compressed_corpus():",
      "                self.decompressor.decompress(archive_path, doc_path, document_set.uncompressed_size_in_bytes)\n            else:\n                if document_set.has_compressed_corpus():", "O14.9"),
    V("F25: no invalidation after download", "break", _L,
      "                    self.downloader.download(document_set.base_url, target_path, expected_size)\n                    self.invalidate_file_offset_table(doc_path)\n",
      "                    self.downloader.download(document_set.base_url, target_path, expected_size)\n", "O14.9"),
    V("F25: no invalidation after decompress (bundled)", "break", _L,
      "                    self.decompressor.decompress(archive_path, doc_path, document_set.uncompressed_size_in_bytes)\n                    self.invalidate_file_offset_table(doc_path)\n                else:\n                    # treat this is an error",
      "                    self.decompressor.decompress(archive_path, doc_path, document_set.uncompressed_size_in_bytes)\n                else:\n                    # treat this is an error", "O14.9"),
    V("F25: the helper removes the table only when there is none", "break", _L, "        if os.path.exists(f\"{document_file_path}.offset\"):\n            io.remove_file_offset_table(document_file_path)",
      "        if not os.path.exists(f\"{document_file_path}.offset\"):\n            io.remove_file_offset_table(document_file_path)", "O14.9"),
    V("F25: the helper looks for another file name", "break", _L, "        if os.path.exists(f\"{document_file_path}.offset\"):\n            io.remove_file_offset_table(document_file_path)",
      "        if os.path.exists(f\"{document_file_path}.offsets\"):\n            io.remove_file_offset_table(document_file_path)", "O14.9"),
    V("F25: the archive's table is invalidated instead of the document's", "break", _L,
      "                self.decompressor.decompress(archive_path, doc_path, document_set.uncompressed_size_in_bytes)\n                self.invalidate_file_offset_table(doc_path)\n            else:\n                if document_set.has_compressed_corpus():",
      "                self.decompressor.decompress(archive_path, doc_path, document_set.uncompressed_size_in_bytes)\n                self.invalidate_file_offset_table(archive_path)\n            else:\n                if document_set.has_compressed_corpus():", "O14.9"),
    V("F25: invalidation only on the failure path of the download", "break", _L,
      "                    self.downloader.download(document_set.base_url, target_path, expected_size)\n                    self.invalidate_file_offset_table(doc_path)\n                except exceptions.DataError as e:\n",
      "                    self.downloader.download(document_set.base_url, target_path, expected_size)\n                except exceptions.DataError as e:\n                    self.invalidate_file_offset_table(doc_path)\n", "O14.9"),
    V("F25: io.remove_file_offset_table removes another name than the readers open", "break", _I, "        os.remove(f\"{data_file_path}.offset\")", "        os.remove(f\"{data_file_path}.offsets\")", "O14.9"),
    # preserving
    V("size check with inverted arms (rename in the true arm)", "keep", _N,
      "    if expected_size_in_bytes is not None and download_size != expected_size_in_bytes:\n        if os.path.isfile(tmp_data_set_path):\n            os.remove(tmp_data_set_path)\n        raise exceptions.DataError(\n            \"Download of [%s] is corrupt. Downloaded [%d] bytes but [%d] bytes are expected. Please retry.\"\n            % (local_path, download_size, expected_size_in_bytes)\n        )\n    os.rename(tmp_data_set_path, local_path)",
      "    if expected_size_in_bytes is None or expected_size_in_bytes == download_size:\n        os.rename(tmp_data_set_path, local_path)\n    else:\n        if os.path.isfile(tmp_data_set_path):\n            os.remove(tmp_data_set_path)\n        raise exceptions.DataError(\n            \"Download of [%s] is corrupt. Downloaded [%d] bytes but [%d] bytes are expected. Please retry.\"\n            % (local_path, download_size, expected_size_in_bytes)\n        )"),
    V("size check as nested ifs, locals renamed", "keep", _N,
      "    download_size = os.path.getsize(tmp_data_set_path)\n    if expected_size_in_bytes is not None and download_size != expected_size_in_bytes:\n        if os.path.isfile(tmp_data_set_path):\n            os.remove(tmp_data_set_path)\n        raise exceptions.DataError(\n            \"Download of [%s] is corrupt. Downloaded [%d] bytes but [%d] bytes are expected. Please retry.\"\n            % (local_path, download_size, expected_size_in_bytes)\n        )",
      "    got = os.path.getsize(tmp_data_set_path)\n    if expected_size_in_bytes is not None:\n        if expected_size_in_bytes != got:\n            if os.path.isfile(tmp_data_set_path):\n                os.remove(tmp_data_set_path)\n            raise exceptions.DataError(\n                \"Download of [%s] is corrupt. Downloaded [%d] bytes but [%d] bytes are expected. Please retry.\"\n                % (local_path, got, expected_size_in_bytes)\n            )"),
    V("last-index test flipped, logging first", "keep", _N, "            if i == HTTP_DOWNLOAD_RETRIES:", "            logger.debug(\"attempt %d failed\", i)\n            if HTTP_DOWNLOAD_RETRIES <= i:"),
    V("status test inverted", "keep", _N, "        if r.status > 299:", "        if not r.status < 300:"),
    V("line-count test flipped", "keep", _L, "        if lines_read is not None and lines_read != expected_number_of_lines:", "        if expected_number_of_lines != lines_read and lines_read is not None:"),
    V("has_expected_size flipped", "keep", _L, "        return expected_size is None or os.path.getsize(file_name) == expected_size", "        return expected_size == os.path.getsize(file_name) or expected_size is None"),
    V("loop exit as nested ifs", "keep", _L, "            if self.is_locally_available(doc_path) and self.has_expected_size(doc_path, document_set.uncompressed_size_in_bytes):\n                break",
      "            if self.is_locally_available(doc_path):\n                if self.has_expected_size(doc_path, document_set.uncompressed_size_in_bytes):\n                    break"),
    V("extension constant on the left", "keep", _I, "    if extension == \".zip\":", "    if \".zip\" == extension:"),
    V("extension via subscript, renamed", "keep", _I, "    _, extension = splitext(zip_name)\n    if extension == \".zip\":", "    ext = splitext(zip_name)[1]\n    extension = ext\n    if ext == \".zip\":"),
    V("os.replace", "keep", _N, "    os.rename(tmp_data_set_path, local_path)", "    os.replace(tmp_data_set_path, local_path)"),
    V(">= 300", "keep", _N, "        if r.status > 299:", "        if r.status >= 300:"),
    V("not line", "keep", _I, "                        if len(line) == 0:\n                            break\n                        line_number += 1", "                        if not line:\n                            break\n                        line_number += 1"),
    # F24 respelled
    V("F24 respelled: os.rename instead of os.replace", "keep", _I, "            os.replace(file_offset_table.offset_table_path, final_path)", "            os.rename(file_offset_table.offset_table_path, final_path)"),
    [V("F24 respelled: temporary name in a local, `+` instead of an f-string, other suffix", "keep", _I, "        file_offset_table.offset_table_path = f\"{final_path}.tmp\"\n", "        tmp_path = final_path + \".part\"\n        file_offset_table.offset_table_path = tmp_path\n"),
     V("", "keep", _I, "            os.replace(file_offset_table.offset_table_path, final_path)", "            os.replace(tmp_path, final_path)"),
     V("", "keep", _I, "            if os.path.exists(file_offset_table.offset_table_path):\n                os.remove(file_offset_table.offset_table_path)", "            if os.path.exists(tmp_path):\n                os.remove(tmp_path)")],
    V("F24 respelled: a separate table object built on the temporary name (no attribute juggling)", "keep", _I,
      "        final_path = file_offset_table.offset_table_path\n        file_offset_table.offset_table_path = f\"{final_path}.tmp\"\n        try:\n            with file_offset_table:\n                with open(data_file_path, encoding=\"utf-8\") as data_file:\n                    while True:\n                        line = data_file.readline()\n                        if len(line) == 0:\n                            break\n                        line_number += 1\n                        if line_number % 50000 == 0:\n                            file_offset_table.add_offset(line_number, data_file.tell())\n            os.replace(file_offset_table.offset_table_path, final_path)\n        except BaseException:\n            if os.path.exists(file_offset_table.offset_table_path):\n                os.remove(file_offset_table.offset_table_path)\n            raise\n        finally:\n            file_offset_table.offset_table_path = final_path\n",
      "        tmp_path = data_file_path + \".offset.tmp\"\n        building = FileOffsetTable(data_file_path, tmp_path, \"wt\")\n        try:\n            with building:\n                with open(data_file_path, encoding=\"utf-8\") as data_file:\n                    while True:\n                        line = data_file.readline()\n                        if len(line) == 0:\n                            break\n                        line_number += 1\n                        if line_number % 50000 == 0:\n                            building.add_offset(line_number, data_file.tell())\n        except BaseException:\n            if os.path.exists(tmp_path):\n                os.remove(tmp_path)\n            raise\n        os.replace(tmp_path, f\"{data_file_path}.offset\")\n"),
    V("F24 respelled: the failure handler does not test for existence first", "keep", _I,
      "            if os.path.exists(file_offset_table.offset_table_path):\n                os.remove(file_offset_table.offset_table_path)\n            raise\n",
      "            try:\n                os.remove(file_offset_table.offset_table_path)\n            except FileNotFoundError:\n                pass\n            raise\n"),
    # F25 respelled
    V("F25 respelled: invalidation written out after decompress", "keep", _L,
      "                self.decompressor.decompress(archive_path, doc_path, document_set.uncompressed_size_in_bytes)\n                self.invalidate_file_offset_table(doc_path)\n            else:\n                if document_set.has_compressed_corpus():",
      "                self.decompressor.decompress(archive_path, doc_path, document_set.uncompressed_size_in_bytes)\n                if os.path.isfile(doc_path + \".offset\"):\n                    io.remove_file_offset_table(doc_path)\n            else:\n                if document_set.has_compressed_corpus():"),
    V("F25 respelled: helper with isfile / FileOffsetTable.remove / early return", "keep", _L, "        if os.path.exists(f\"{document_file_path}.offset\"):\n            io.remove_file_offset_table(document_file_path)",
      "        table = document_file_path + \".offset\"\n        if not os.path.isfile(table):\n            return\n        io.FileOffsetTable.remove(document_file_path)"),
    V("F25 respelled: invalidation after the try statement of the download", "keep", _L,
      "                    self.downloader.download(document_set.base_url, target_path, expected_size)\n                    self.invalidate_file_offset_table(doc_path)\n                except exceptions.DataError as e:\n                    if e.message == \"Cannot download data because no base URL is provided.\" and self.is_locally_available(target_path):\n                        raise exceptions.DataError(\n                            f\"[{target_path}] is present but does not have the expected \"\n                            f\"size of [{expected_size}] bytes and it cannot be downloaded \"\n                            f\"because no base URL is provided.\"\n                        ) from None\n                    raise\n",
      "                    self.downloader.download(document_set.base_url, target_path, expected_size)\n                except exceptions.DataError as e:\n                    if e.message == \"Cannot download data because no base URL is provided.\" and self.is_locally_available(target_path):\n                        raise exceptions.DataError(\n                            f\"[{target_path}] is present but does not have the expected \"\n                            f\"size of [{expected_size}] bytes and it cannot be downloaded \"\n                            f\"because no base URL is provided.\"\n                        ) from None\n                    raise\n                self.invalidate_file_offset_table(target_path)\n"),
    V("F25 respelled: the downloaded target's table is invalidated (target is the document file whenever the download creates it)", "keep", _L,
      "                    self.downloader.download(document_set.base_url, target_path, expected_size)\n                    self.invalidate_file_offset_table(doc_path)\n",
      "                    self.downloader.download(document_set.base_url, target_path, expected_size)\n                    self.invalidate_file_offset_table(target_path)\n"),
    # ---- hardening round 2: refactored shapes the re-stated obligations accept (keep) and defects placed inside those shapes (break)
    V('scan as `while data_file.readline():` (readline in the loop test)', 'keep', _I, '                    while True:\n                        line = data_file.readline()\n                        if len(line) == 0:\n                            break\n                        line_number += 1\n', '                    while data_file.readline():\n                        line_number += 1\n'),
    V('scan as `while (line := data_file.readline()):`', 'keep', _I, '                    while True:\n                        line = data_file.readline()\n                        if len(line) == 0:\n                            break\n                        line_number += 1\n', '                    while (line := data_file.readline()):\n                        line_number += 1\n'),
    V('scan as `for line in iter(data_file.readline, "")`', 'keep', _I, '                    while True:\n                        line = data_file.readline()\n                        if len(line) == 0:\n                            break\n                        line_number += 1\n', '                    for line in iter(data_file.readline, ""):\n                        line_number += 1\n'),
    V('scan as enumerate(iter(data_file.readline, ""), start=1): the counter is the enumerate position', 'keep', _I, '                    while True:\n                        line = data_file.readline()\n                        if len(line) == 0:\n                            break\n                        line_number += 1\n', '                    for line_number, _ in enumerate(iter(data_file.readline, ""), start=1):\n'),
    V('add_offset called with keyword arguments', 'keep', _I, 'file_offset_table.add_offset(line_number, data_file.tell())', 'file_offset_table.add_offset(offset=data_file.tell(), line_number=line_number)'),
    V('enumerate(...) from 0: every recorded line number is one too small', 'break', _I, '                    while True:\n                        line = data_file.readline()\n                        if len(line) == 0:\n                            break\n                        line_number += 1\n', '                    for line_number, _ in enumerate(iter(data_file.readline, "")):\n', 'O14.6'),
    V('enumerate over the file object itself (tell() is disabled during iteration)', 'break', _I, '                    while True:\n                        line = data_file.readline()\n                        if len(line) == 0:\n                            break\n                        line_number += 1\n', '                    for line_number, _ in enumerate(data_file, 1):\n', 'O14.6'),
    V('`while data_file.readline().strip():` — the scan ends at the first blank line', 'break', _I, '                    while True:\n                        line = data_file.readline()\n                        if len(line) == 0:\n                            break\n                        line_number += 1\n', '                    while data_file.readline().strip():\n                        line_number += 1\n', 'O14.6'),
    V('iter(readline, "\\n") — the scan ends at the first blank line, never at end of file', 'break', _I, '                    while True:\n                        line = data_file.readline()\n                        if len(line) == 0:\n                            break\n                        line_number += 1\n', '                    for line in iter(data_file.readline, "\\n"):\n                        line_number += 1\n', 'O14.6'),
    V('the empty read is counted before the end-of-file test', 'break', _I, '                    while True:\n                        line = data_file.readline()\n                        if len(line) == 0:\n                            break\n                        line_number += 1\n', '                    while True:\n                        line = data_file.readline()\n                        line_number += 1\n                        if len(line) == 0:\n                            break\n', 'O14.6'),
    V('line counter starts at 1', 'break', _I, '        line_number = 0\n        # build the table', '        line_number = 1\n        # build the table', 'O14.6'),
    V('add_offset arguments swapped', 'break', _I, 'file_offset_table.add_offset(line_number, data_file.tell())', 'file_offset_table.add_offset(data_file.tell(), line_number)', 'O14.6'),
    V('is_valid with a guard clause and a temporary', 'keep', _I, '        return self.exists() and os.path.getmtime(self.offset_table_path) >= os.path.getmtime(self.data_file_path)', '        if not self.exists():\n            return False\n        table_mtime = os.path.getmtime(self.offset_table_path)\n        return table_mtime >= os.path.getmtime(self.data_file_path)'),
    V('is_valid with a guard clause that declares a missing table valid', 'break', _I, '        return self.exists() and os.path.getmtime(self.offset_table_path) >= os.path.getmtime(self.data_file_path)', '        if not self.exists():\n            return True\n        return os.path.getmtime(self.offset_table_path) >= os.path.getmtime(self.data_file_path)', 'O14.6'),
    V('entry written with write() and string concatenation', 'keep', _I, '        print(f"{line_number};{offset}", file=self.offset_file)', '        self.offset_file.write(str(line_number) + ";" + str(offset) + "\\n")'),
    V('reader parses through an intermediate list', 'keep', _I, '            line_number, offset_in_bytes = (int(i) for i in line.strip().split(";"))', '            fields = line.strip().split(";")\n            line_number, offset_in_bytes = int(fields[0]), int(fields[1])'),
    V("writer separator differs from the reader's", 'break', _I, '        print(f"{line_number};{offset}", file=self.offset_file)', '        print(f"{line_number},{offset}", file=self.offset_file)', 'O14.6'),
    V('skipper without the redundant `if`, range(0, n)', 'keep', _I, '    if remaining_lines > 0:\n        for _ in range(remaining_lines):\n            data_file.readline()', '    for _ in range(0, remaining_lines):\n        data_file.readline()'),
    V('skipper reads one line too many', 'break', _I, '    if remaining_lines > 0:\n        for _ in range(remaining_lines):\n            data_file.readline()', '    for _ in range(remaining_lines + 1):\n        data_file.readline()', 'O14.6'),
    V('without a table nothing is skipped', 'break', _I, '        offset = 0\n        remaining_lines = number_of_lines_to_skip', '        offset = 0\n        remaining_lines = 0', 'O14.6'),
    [V('download(): transport dispatch and clean-up extracted into helper functions', 'keep', _N, 'def download(url, local_path, expected_size_in_bytes=None, progress_indicator=None):\n', 'def _discard_partial_download(tmp_path):\n    if os.path.isfile(tmp_path):\n        os.remove(tmp_path)\n\n\ndef _fetch(url, target_path, expected_size_in_bytes, progress_indicator):\n    scheme = urllib3.util.parse_url(url).scheme\n    if scheme in ["s3", "gs"]:\n        return download_from_bucket(scheme, url, target_path, expected_size_in_bytes, progress_indicator)\n    return download_http(url, target_path, expected_size_in_bytes, progress_indicator)\n\n\ndef download(url, local_path, expected_size_in_bytes=None, progress_indicator=None):\n'),
     V('', 'keep', _N, '        scheme = urllib3.util.parse_url(url).scheme\n        if scheme in ["s3", "gs"]:\n            expected_size_in_bytes = download_from_bucket(scheme, url, tmp_data_set_path, expected_size_in_bytes, progress_indicator)\n        else:\n            expected_size_in_bytes = download_http(url, tmp_data_set_path, expected_size_in_bytes, progress_indicator)\n', '        expected_size_in_bytes = _fetch(url, tmp_data_set_path, expected_size_in_bytes, progress_indicator)\n'),
     V('', 'keep', _N, '    except BaseException:\n        if os.path.isfile(tmp_data_set_path):\n            os.remove(tmp_data_set_path)\n        raise\n', '    except BaseException:\n        _discard_partial_download(tmp_data_set_path)\n        raise\n'),
     V('', 'keep', _N, '    if expected_size_in_bytes is not None and download_size != expected_size_in_bytes:\n        if os.path.isfile(tmp_data_set_path):\n            os.remove(tmp_data_set_path)\n', '    if expected_size_in_bytes is not None and download_size != expected_size_in_bytes:\n        _discard_partial_download(tmp_data_set_path)\n')],
    [V('extracted _fetch is handed the final path', 'break', _N, 'def download(url, local_path, expected_size_in_bytes=None, progress_indicator=None):\n', 'def _discard_partial_download(tmp_path):\n    if os.path.isfile(tmp_path):\n        os.remove(tmp_path)\n\n\ndef _fetch(url, target_path, expected_size_in_bytes, progress_indicator):\n    scheme = urllib3.util.parse_url(url).scheme\n    if scheme in ["s3", "gs"]:\n        return download_from_bucket(scheme, url, target_path, expected_size_in_bytes, progress_indicator)\n    return download_http(url, target_path, expected_size_in_bytes, progress_indicator)\n\n\ndef download(url, local_path, expected_size_in_bytes=None, progress_indicator=None):\n', 'O14.1'),
     V('', 'break', _N, '        scheme = urllib3.util.parse_url(url).scheme\n        if scheme in ["s3", "gs"]:\n            expected_size_in_bytes = download_from_bucket(scheme, url, tmp_data_set_path, expected_size_in_bytes, progress_indicator)\n        else:\n            expected_size_in_bytes = download_http(url, tmp_data_set_path, expected_size_in_bytes, progress_indicator)\n', '        expected_size_in_bytes = _fetch(url, local_path, expected_size_in_bytes, progress_indicator)\n'),
     V('', 'break', _N, '    except BaseException:\n        if os.path.isfile(tmp_data_set_path):\n            os.remove(tmp_data_set_path)\n        raise\n', '    except BaseException:\n        _discard_partial_download(tmp_data_set_path)\n        raise\n'),
     V('', 'break', _N, '    if expected_size_in_bytes is not None and download_size != expected_size_in_bytes:\n        if os.path.isfile(tmp_data_set_path):\n            os.remove(tmp_data_set_path)\n', '    if expected_size_in_bytes is not None and download_size != expected_size_in_bytes:\n        _discard_partial_download(tmp_data_set_path)\n')],
    [V('extracted clean-up helper removes the temporary file only when it is absent', 'break', _N, 'def download(url, local_path, expected_size_in_bytes=None, progress_indicator=None):\n', 'def _discard_partial_download(tmp_path):\n    if not os.path.isfile(tmp_path):\n        os.remove(tmp_path)\n\n\ndef _fetch(url, target_path, expected_size_in_bytes, progress_indicator):\n    scheme = urllib3.util.parse_url(url).scheme\n    if scheme in ["s3", "gs"]:\n        return download_from_bucket(scheme, url, target_path, expected_size_in_bytes, progress_indicator)\n    return download_http(url, target_path, expected_size_in_bytes, progress_indicator)\n\n\ndef download(url, local_path, expected_size_in_bytes=None, progress_indicator=None):\n', 'O14.1'),
     V('', 'break', _N, '        scheme = urllib3.util.parse_url(url).scheme\n        if scheme in ["s3", "gs"]:\n            expected_size_in_bytes = download_from_bucket(scheme, url, tmp_data_set_path, expected_size_in_bytes, progress_indicator)\n        else:\n            expected_size_in_bytes = download_http(url, tmp_data_set_path, expected_size_in_bytes, progress_indicator)\n', '        expected_size_in_bytes = _fetch(url, tmp_data_set_path, expected_size_in_bytes, progress_indicator)\n'),
     V('', 'break', _N, '    except BaseException:\n        if os.path.isfile(tmp_data_set_path):\n            os.remove(tmp_data_set_path)\n        raise\n', '    except BaseException:\n        _discard_partial_download(tmp_data_set_path)\n        raise\n'),
     V('', 'break', _N, '    if expected_size_in_bytes is not None and download_size != expected_size_in_bytes:\n        if os.path.isfile(tmp_data_set_path):\n            os.remove(tmp_data_set_path)\n', '    if expected_size_in_bytes is not None and download_size != expected_size_in_bytes:\n        _discard_partial_download(tmp_data_set_path)\n')],
    [V('extracted _fetch writes to the final path itself (ignores its target parameter for HTTP)', 'break', _N, 'def download(url, local_path, expected_size_in_bytes=None, progress_indicator=None):\n', 'def _discard_partial_download(tmp_path):\n    if os.path.isfile(tmp_path):\n        os.remove(tmp_path)\n\n\ndef _fetch(url, target_path, expected_size_in_bytes, progress_indicator):\n    scheme = urllib3.util.parse_url(url).scheme\n    if scheme in ["s3", "gs"]:\n        return download_from_bucket(scheme, url, target_path, expected_size_in_bytes, progress_indicator)\n    return download_http(url, target_path[:-4], expected_size_in_bytes, progress_indicator)\n\n\ndef download(url, local_path, expected_size_in_bytes=None, progress_indicator=None):\n', 'O14.1'),
     V('', 'break', _N, '        scheme = urllib3.util.parse_url(url).scheme\n        if scheme in ["s3", "gs"]:\n            expected_size_in_bytes = download_from_bucket(scheme, url, tmp_data_set_path, expected_size_in_bytes, progress_indicator)\n        else:\n            expected_size_in_bytes = download_http(url, tmp_data_set_path, expected_size_in_bytes, progress_indicator)\n', '        expected_size_in_bytes = _fetch(url, tmp_data_set_path, expected_size_in_bytes, progress_indicator)\n'),
     V('', 'break', _N, '    except BaseException:\n        if os.path.isfile(tmp_data_set_path):\n            os.remove(tmp_data_set_path)\n        raise\n', '    except BaseException:\n        _discard_partial_download(tmp_data_set_path)\n        raise\n'),
     V('', 'break', _N, '    if expected_size_in_bytes is not None and download_size != expected_size_in_bytes:\n        if os.path.isfile(tmp_data_set_path):\n            os.remove(tmp_data_set_path)\n', '    if expected_size_in_bytes is not None and download_size != expected_size_in_bytes:\n        _discard_partial_download(tmp_data_set_path)\n')],
    V('retry handler with inverted test (retry arm first, bare raise last)', 'keep', _N, '            if i == HTTP_DOWNLOAD_RETRIES:\n                raise\n            logger.warning("Retrying after %s", exc)\n            sleep(5)\n            continue\n', '            if i < HTTP_DOWNLOAD_RETRIES:\n                logger.warning("Retrying after %s", exc)\n                sleep(5)\n                continue\n            raise\n'),
    [V('1-based attempt counter', 'keep', _N, '    for i in range(HTTP_DOWNLOAD_RETRIES + 1):', '    for i in range(1, HTTP_DOWNLOAD_RETRIES + 2):'),
     V('', 'keep', _N, '            if i == HTTP_DOWNLOAD_RETRIES:\n                raise', '            if i > HTTP_DOWNLOAD_RETRIES:\n                raise')],
    [V("transfer result kept in a local and returned in the try's else arm, keyword arguments", 'keep', _N, '            return _download_http(url, local_path, expected_size_in_bytes, progress_indicator)\n', '            result = _download_http(url, local_path, expected_size_in_bytes=expected_size_in_bytes, progress_indicator=progress_indicator)\n'),
     V('', 'keep', _N, '            if i == HTTP_DOWNLOAD_RETRIES:\n                raise\n            logger.warning("Retrying after %s", exc)\n            sleep(5)\n            continue\n', '            if i == HTTP_DOWNLOAD_RETRIES:\n                raise\n            logger.warning("Retrying after %s", exc)\n            sleep(5)\n            continue\n        else:\n            return result\n')],
    V("last attempt's error turned into `return None`", 'break', _N, '            if i == HTTP_DOWNLOAD_RETRIES:\n                raise\n            logger.warning("Retrying after %s", exc)\n            sleep(5)\n            continue\n', '            if i == HTTP_DOWNLOAD_RETRIES:\n                return None\n            logger.warning("Retrying after %s", exc)\n            sleep(5)\n            continue\n', 'O14.2'),
    V('1-based attempt counter, re-raise test left 0-based (one attempt is lost, the last error is swallowed)', 'break', _N, '    for i in range(HTTP_DOWNLOAD_RETRIES + 1):', '    for i in range(1, HTTP_DOWNLOAD_RETRIES + 2):', 'O14.2'),
    V('transfer result discarded', 'break', _N, '            return _download_http(url, local_path, expected_size_in_bytes, progress_indicator)\n', '            _download_http(url, local_path, expected_size_in_bytes, progress_indicator)\n            return expected_size_in_bytes\n', 'O14.2'),
    V('Downloader: verification after the transfer extracted into a helper method', 'keep', _L, '        if not os.path.isfile(target_path):\n            raise exceptions.SystemSetupError(\n                f"Could not download [{data_url}] to [{target_path}]. Verify data "\n                f"are available at [{data_url}] and check your Internet connection."\n            )\n\n        actual_size = os.path.getsize(target_path)\n        if size_in_bytes is not None and actual_size != size_in_bytes:\n            raise exceptions.DataError(\n                f"[{target_path}] is corrupt. Downloaded [{actual_size}] bytes but [{size_in_bytes}] bytes are expected."\n            )\n', '        self._verify(data_url, target_path, size_in_bytes)\n\n    def _verify(self, url, path, expected):\n        if not os.path.isfile(path):\n            raise exceptions.SystemSetupError(f"Could not download [{url}] to [{path}].")\n        actual_size = os.path.getsize(path)\n        if expected is not None and actual_size != expected:\n            raise exceptions.DataError(f"[{path}] is corrupt. Downloaded [{actual_size}] bytes but [{expected}] bytes are expected.")\n'),
    V('extracted verification helper tests the declared size by truthiness', 'break', _L, '        if not os.path.isfile(target_path):\n            raise exceptions.SystemSetupError(\n                f"Could not download [{data_url}] to [{target_path}]. Verify data "\n                f"are available at [{data_url}] and check your Internet connection."\n            )\n\n        actual_size = os.path.getsize(target_path)\n        if size_in_bytes is not None and actual_size != size_in_bytes:\n            raise exceptions.DataError(\n                f"[{target_path}] is corrupt. Downloaded [{actual_size}] bytes but [{size_in_bytes}] bytes are expected."\n            )\n', '        self._verify(data_url, target_path, size_in_bytes)\n\n    def _verify(self, url, path, expected):\n        if not os.path.isfile(path):\n            raise exceptions.SystemSetupError(f"Could not download [{url}] to [{path}].")\n        actual_size = os.path.getsize(path)\n        if expected and actual_size != expected:\n            raise exceptions.DataError(f"[{path}] is corrupt. Downloaded [{actual_size}] bytes but [{expected}] bytes are expected.")\n', 'O14.3'),
    V('extracted verification helper lost the existence test', 'break', _L, '        if not os.path.isfile(target_path):\n            raise exceptions.SystemSetupError(\n                f"Could not download [{data_url}] to [{target_path}]. Verify data "\n                f"are available at [{data_url}] and check your Internet connection."\n            )\n\n        actual_size = os.path.getsize(target_path)\n        if size_in_bytes is not None and actual_size != size_in_bytes:\n            raise exceptions.DataError(\n                f"[{target_path}] is corrupt. Downloaded [{actual_size}] bytes but [{size_in_bytes}] bytes are expected."\n            )\n', '        self._verify(data_url, target_path, size_in_bytes)\n\n    def _verify(self, url, path, expected):\n        actual_size = os.path.getsize(path)\n        if expected is not None and actual_size != expected:\n            raise exceptions.DataError(f"[{path}] is corrupt. Downloaded [{actual_size}] bytes but [{expected}] bytes are expected.")\n', 'O14.3'),
    [V('Downloader: base-URL / offline guards extracted into a helper method, net.download called with keywords', 'keep', _L, '        if not base_url:\n            raise exceptions.DataError("Cannot download data because no base URL is provided.")\n        if self.offline:\n            raise exceptions.SystemSetupError(f"Cannot find [{target_path}]. Please disable offline mode and retry.")\n', '        self._check_can_download(base_url, target_path)\n'),
     V('', 'keep', _L, 'class Downloader:\n', 'class Downloader:\n    def _check_can_download(self, base_url, target_path):\n        if not base_url:\n            raise exceptions.DataError("Cannot download data because no base URL is provided.")\n        if self.offline:\n            raise exceptions.SystemSetupError(f"Cannot find [{target_path}]. Please disable offline mode and retry.")\n\n'),
     V('', 'keep', _L, '            net.download(data_url, target_path, size_in_bytes, progress_indicator=progress)', '            net.download(data_url, local_path=target_path, expected_size_in_bytes=size_in_bytes, progress_indicator=progress)')],
    [V('extracted guard helper lost the base-URL test', 'break', _L, '        if not base_url:\n            raise exceptions.DataError("Cannot download data because no base URL is provided.")\n        if self.offline:\n            raise exceptions.SystemSetupError(f"Cannot find [{target_path}]. Please disable offline mode and retry.")\n', '        self._check_can_download(base_url, target_path)\n', 'O14.3'),
     V('', 'break', _L, 'class Downloader:\n', 'class Downloader:\n    def _check_can_download(self, base_url, target_path):\n        if self.offline:\n            raise exceptions.SystemSetupError(f"Cannot find [{target_path}]. Please disable offline mode and retry.")\n\n')],
    V('state loop as `while not (<present and right-sized>):`', 'keep', _L, '        while True:\n            if self.is_locally_available(doc_path) and self.has_expected_size(doc_path, document_set.uncompressed_size_in_bytes):\n                break\n', '        while not (self.is_locally_available(doc_path) and self.has_expected_size(doc_path, document_set.uncompressed_size_in_bytes)):\n'),
    V('state loop as `while not <present>:` (size not part of the exit condition)', 'break', _L, '        while True:\n            if self.is_locally_available(doc_path) and self.has_expected_size(doc_path, document_set.uncompressed_size_in_bytes):\n                break\n', '        while not self.is_locally_available(doc_path):\n', 'O14.4'),
    V('state loop as `while not (<present> or <right-sized>):`', 'break', _L, '        while True:\n            if self.is_locally_available(doc_path) and self.has_expected_size(doc_path, document_set.uncompressed_size_in_bytes):\n                break\n', '        while not (self.is_locally_available(doc_path) or self.has_expected_size(doc_path, document_set.uncompressed_size_in_bytes)):\n', 'O14.4'),
    [V('exit condition extracted into a predicate method', 'keep', _L, '            if self.is_locally_available(doc_path) and self.has_expected_size(doc_path, document_set.uncompressed_size_in_bytes):\n                break', '            if self._is_ready(doc_path, document_set):\n                break'),
     V('', 'keep', _L, '    def has_expected_size(self, file_name, expected_size):', '    def _is_ready(self, path, ds):\n        return self.is_locally_available(path) and self.has_expected_size(path, ds.uncompressed_size_in_bytes)\n\n    def has_expected_size(self, file_name, expected_size):')],
    [V('extracted exit predicate joins the two tests with `or`', 'break', _L, '            if self.is_locally_available(doc_path) and self.has_expected_size(doc_path, document_set.uncompressed_size_in_bytes):\n                break', '            if self._is_ready(doc_path, document_set):\n                break', 'O14.4'),
     V('', 'break', _L, '    def has_expected_size(self, file_name, expected_size):', '    def _is_ready(self, path, ds):\n        return self.is_locally_available(path) or self.has_expected_size(path, ds.uncompressed_size_in_bytes)\n\n    def has_expected_size(self, file_name, expected_size):')],
    [V('extracted exit predicate checks the compressed size', 'break', _L, '            if self.is_locally_available(doc_path) and self.has_expected_size(doc_path, document_set.uncompressed_size_in_bytes):\n                break', '            if self._is_ready(doc_path, document_set):\n                break', 'O14.4'),
     V('', 'break', _L, '    def has_expected_size(self, file_name, expected_size):', '    def _is_ready(self, path, ds):\n        return self.is_locally_available(path) and self.has_expected_size(path, ds.compressed_size_in_bytes)\n\n    def has_expected_size(self, file_name, expected_size):')],
    V('has_expected_size with a guard clause and a temporary', 'keep', _L, '        return expected_size is None or os.path.getsize(file_name) == expected_size', '        if expected_size is None:\n            return True\n        actual = os.path.getsize(file_name)\n        return actual == expected_size'),
    V('has_expected_size guard clause by truthiness (a declared size of 0 is not checked)', 'break', _L, '        return expected_size is None or os.path.getsize(file_name) == expected_size', '        if not expected_size:\n            return True\n        return os.path.getsize(file_name) == expected_size', 'O14.4'),
    V('offset-table step moved into a helper method (keyword arguments)', 'keep', _L, '        self.create_file_offset_table(doc_path, document_set.number_of_lines)\n\n    def prepare_bundled', '        self._finish(doc_path, document_set)\n\n    def _finish(self, path, ds):\n        self.create_file_offset_table(expected_number_of_lines=ds.number_of_lines, document_file_path=path)\n\n    def prepare_bundled'),
    V('offset-table helper is handed the archive', 'break', _L, '        self.create_file_offset_table(doc_path, document_set.number_of_lines)\n\n    def prepare_bundled', '        self._finish(archive_path, document_set)\n\n    def _finish(self, path, ds):\n        self.create_file_offset_table(path, ds.number_of_lines)\n\n    def prepare_bundled', 'O14.4'),
    V('download pair as a tuple assignment', 'keep', _L, '                    target_path = archive_path\n                    expected_size = document_set.compressed_size_in_bytes', '                    target_path, expected_size = archive_path, document_set.compressed_size_in_bytes'),
    V('download pair as a tuple assignment, sizes crossed', 'break', _L, '                    target_path = archive_path\n                    expected_size = document_set.compressed_size_in_bytes', '                    target_path, expected_size = archive_path, document_set.uncompressed_size_in_bytes', 'O14.4'),
    [V('extension if-chain replaced by a module-level dispatch table', 'keep', _I, 'def decompress(zip_name: str, target_directory: str) -> None:\n', '_SINGLE_FILE_DECOMPRESSORS = {\n    ".bz2": (("pbzip2", "-d", "-k", "-m10000", "-c"), bz2.open),\n    ".zst": (("pzstd", "-f", "-d", "-c"), ZstAdapter),\n    ".gz": (("pigz", "-d", "-k", "-c"), gzip.open),\n}\n_TAR_ARCHIVE_EXTENSIONS = frozenset([".tar", ".tar.gz", ".tgz", ".tar.bz2"])\n\n\ndef decompress(zip_name: str, target_directory: str) -> None:\n'),
     V('', 'keep', _I, '    if extension == ".zip":\n        _do_decompress(target_directory, zipfile.ZipFile(zip_name))\n    elif extension == ".bz2":\n        decompressor_args = ["pbzip2", "-d", "-k", "-m10000", "-c"]\n        decompressor_lib_bz2 = bz2.open\n        _do_decompress_manually(target_directory, zip_name, decompressor_args, decompressor_lib_bz2)\n    elif extension == ".zst":\n        decompressor_args = ["pzstd", "-f", "-d", "-c"]\n        decompressor_lib_zst = ZstAdapter\n        _do_decompress_manually(target_directory, zip_name, decompressor_args, decompressor_lib_zst)\n    elif extension == ".gz":\n        decompressor_args = ["pigz", "-d", "-k", "-c"]\n        decompressor_lib_gzip = gzip.open\n        _do_decompress_manually(target_directory, zip_name, decompressor_args, decompressor_lib_gzip)\n    elif extension in [".tar", ".tar.gz", ".tgz", ".tar.bz2"]:\n', '    if extension in _SINGLE_FILE_DECOMPRESSORS:\n        decompressor_args, decompressor_lib = _SINGLE_FILE_DECOMPRESSORS[extension]\n        _do_decompress_manually(target_directory, zip_name, list(decompressor_args), decompressor_lib)\n    elif extension == ".zip":\n        _do_decompress(target_directory, zipfile.ZipFile(zip_name))\n    elif extension in _TAR_ARCHIVE_EXTENSIONS:\n')],
    [V('dispatch table without the .gz entry', 'break', _I, 'def decompress(zip_name: str, target_directory: str) -> None:\n', '_SINGLE_FILE_DECOMPRESSORS = {\n    ".bz2": (("pbzip2", "-d", "-k", "-m10000", "-c"), bz2.open),\n    ".zst": (("pzstd", "-f", "-d", "-c"), ZstAdapter),\n}\n_TAR_ARCHIVE_EXTENSIONS = frozenset([".tar", ".tar.gz", ".tgz", ".tar.bz2"])\n\n\ndef decompress(zip_name: str, target_directory: str) -> None:\n', 'O14.5'),
     V('', 'break', _I, '    if extension == ".zip":\n        _do_decompress(target_directory, zipfile.ZipFile(zip_name))\n    elif extension == ".bz2":\n        decompressor_args = ["pbzip2", "-d", "-k", "-m10000", "-c"]\n        decompressor_lib_bz2 = bz2.open\n        _do_decompress_manually(target_directory, zip_name, decompressor_args, decompressor_lib_bz2)\n    elif extension == ".zst":\n        decompressor_args = ["pzstd", "-f", "-d", "-c"]\n        decompressor_lib_zst = ZstAdapter\n        _do_decompress_manually(target_directory, zip_name, decompressor_args, decompressor_lib_zst)\n    elif extension == ".gz":\n        decompressor_args = ["pigz", "-d", "-k", "-c"]\n        decompressor_lib_gzip = gzip.open\n        _do_decompress_manually(target_directory, zip_name, decompressor_args, decompressor_lib_gzip)\n    elif extension in [".tar", ".tar.gz", ".tgz", ".tar.bz2"]:\n', '    if extension in _SINGLE_FILE_DECOMPRESSORS:\n        decompressor_args, decompressor_lib = _SINGLE_FILE_DECOMPRESSORS[extension]\n        _do_decompress_manually(target_directory, zip_name, list(decompressor_args), decompressor_lib)\n    elif extension == ".zip":\n        _do_decompress(target_directory, zipfile.ZipFile(zip_name))\n    elif extension in _TAR_ARCHIVE_EXTENSIONS:\n')],
    [V('dispatch table: tar set without .tgz', 'break', _I, 'def decompress(zip_name: str, target_directory: str) -> None:\n', '_SINGLE_FILE_DECOMPRESSORS = {\n    ".bz2": (("pbzip2", "-d", "-k", "-m10000", "-c"), bz2.open),\n    ".zst": (("pzstd", "-f", "-d", "-c"), ZstAdapter),\n    ".gz": (("pigz", "-d", "-k", "-c"), gzip.open),\n}\n_TAR_ARCHIVE_EXTENSIONS = frozenset([".tar", ".tar.gz", ".tar.bz2"])\n\n\ndef decompress(zip_name: str, target_directory: str) -> None:\n', 'O14.5'),
     V('', 'break', _I, '    if extension == ".zip":\n        _do_decompress(target_directory, zipfile.ZipFile(zip_name))\n    elif extension == ".bz2":\n        decompressor_args = ["pbzip2", "-d", "-k", "-m10000", "-c"]\n        decompressor_lib_bz2 = bz2.open\n        _do_decompress_manually(target_directory, zip_name, decompressor_args, decompressor_lib_bz2)\n    elif extension == ".zst":\n        decompressor_args = ["pzstd", "-f", "-d", "-c"]\n        decompressor_lib_zst = ZstAdapter\n        _do_decompress_manually(target_directory, zip_name, decompressor_args, decompressor_lib_zst)\n    elif extension == ".gz":\n        decompressor_args = ["pigz", "-d", "-k", "-c"]\n        decompressor_lib_gzip = gzip.open\n        _do_decompress_manually(target_directory, zip_name, decompressor_args, decompressor_lib_gzip)\n    elif extension in [".tar", ".tar.gz", ".tgz", ".tar.bz2"]:\n', '    if extension in _SINGLE_FILE_DECOMPRESSORS:\n        decompressor_args, decompressor_lib = _SINGLE_FILE_DECOMPRESSORS[extension]\n        _do_decompress_manually(target_directory, zip_name, list(decompressor_args), decompressor_lib)\n    elif extension == ".zip":\n        _do_decompress(target_directory, zipfile.ZipFile(zip_name))\n    elif extension in _TAR_ARCHIVE_EXTENSIONS:\n')],
    V('a supported extension whose branch does nothing', 'break', _I, '        decompressor_lib_gzip = gzip.open\n        _do_decompress_manually(target_directory, zip_name, decompressor_args, decompressor_lib_gzip)\n', '        decompressor_lib_gzip = gzip.open\n', 'O14.5'),
    V('splitext as a loop over the multi-dot suffixes', 'keep', _I, '    if file_name.endswith(".tar.gz"):\n        return file_name[0:-7], file_name[-7:]\n    elif file_name.endswith(".tar.bz2"):\n        return file_name[0:-8], file_name[-8:]\n    else:\n        return os.path.splitext(file_name)\n', '    for suffix in (".tar.gz", ".tar.bz2"):\n        if file_name.endswith(suffix):\n            return file_name[: -len(suffix)], suffix\n    return os.path.splitext(file_name)\n'),
    V('splitext loop without .tar.bz2', 'break', _I, '    if file_name.endswith(".tar.gz"):\n        return file_name[0:-7], file_name[-7:]\n    elif file_name.endswith(".tar.bz2"):\n        return file_name[0:-8], file_name[-8:]\n    else:\n        return os.path.splitext(file_name)\n', '    for suffix in (".tar.gz",):\n        if file_name.endswith(suffix):\n            return file_name[: -len(suffix)], suffix\n    return os.path.splitext(file_name)\n', 'O14.5'),
    V('splitext cuts .tar.bz2 one character short', 'break', _I, '    if file_name.endswith(".tar.gz"):\n        return file_name[0:-7], file_name[-7:]\n    elif file_name.endswith(".tar.bz2"):\n        return file_name[0:-8], file_name[-8:]\n    else:\n        return os.path.splitext(file_name)\n', '    if file_name.endswith(".tar.gz"):\n        return file_name[0:-7], file_name[-7:]\n    elif file_name.endswith(".tar.bz2"):\n        return file_name[0:-7], file_name[-7:]\n    else:\n        return os.path.splitext(file_name)\n', 'O14.5'),
    V('result of the external run kept in a local', 'keep', _I, '        if _do_decompress_manually_external(target_directory, filename, base_path_without_extension, decompressor_args):\n            return\n', '        done = _do_decompress_manually_external(target_directory, filename, base_path_without_extension, decompressor_args)\n        if done:\n            return\n'),
    V('return whatever the external run reported', 'break', _I, '        if _do_decompress_manually_external(target_directory, filename, base_path_without_extension, decompressor_args):\n            return\n', '        done = _do_decompress_manually_external(target_directory, filename, base_path_without_extension, decompressor_args)\n        if not done:\n            return\n', 'O14.5'),
    [V('download(): size check extracted into a helper function', 'keep', _N, '    download_size = os.path.getsize(tmp_data_set_path)\n    if expected_size_in_bytes is not None and download_size != expected_size_in_bytes:\n        if os.path.isfile(tmp_data_set_path):\n            os.remove(tmp_data_set_path)\n        raise exceptions.DataError(\n            "Download of [%s] is corrupt. Downloaded [%d] bytes but [%d] bytes are expected. Please retry."\n            % (local_path, download_size, expected_size_in_bytes)\n        )\n', '    _verify_size(tmp_data_set_path, local_path, expected_size_in_bytes)\n'),
     V('', 'keep', _N, 'def download(url, local_path, expected_size_in_bytes=None, progress_indicator=None):\n', 'def _verify_size(tmp_path, final_path, expected):\n    actual = os.path.getsize(tmp_path)\n    if expected is not None and actual != expected:\n        if os.path.isfile(tmp_path):\n            os.remove(tmp_path)\n        raise exceptions.DataError("Download of [%s] is corrupt. Downloaded [%d] bytes but [%d] bytes are expected. Please retry." % (final_path, actual, expected))\n\n\ndef download(url, local_path, expected_size_in_bytes=None, progress_indicator=None):\n')],
    [V('extracted size check tests the expected size by truthiness', 'break', _N, '    download_size = os.path.getsize(tmp_data_set_path)\n    if expected_size_in_bytes is not None and download_size != expected_size_in_bytes:\n        if os.path.isfile(tmp_data_set_path):\n            os.remove(tmp_data_set_path)\n        raise exceptions.DataError(\n            "Download of [%s] is corrupt. Downloaded [%d] bytes but [%d] bytes are expected. Please retry."\n            % (local_path, download_size, expected_size_in_bytes)\n        )\n', '    _verify_size(tmp_data_set_path, local_path, expected_size_in_bytes)\n', 'O14.1'),
     V('', 'break', _N, 'def download(url, local_path, expected_size_in_bytes=None, progress_indicator=None):\n', 'def _verify_size(tmp_path, final_path, expected):\n    actual = os.path.getsize(tmp_path)\n    if expected and actual != expected:\n        if os.path.isfile(tmp_path):\n            os.remove(tmp_path)\n        raise exceptions.DataError("Download of [%s] is corrupt. Downloaded [%d] bytes but [%d] bytes are expected. Please retry." % (final_path, actual, expected))\n\n\ndef download(url, local_path, expected_size_in_bytes=None, progress_indicator=None):\n')],
    [V('extracted size check raises without removing the temporary file', 'break', _N, '    download_size = os.path.getsize(tmp_data_set_path)\n    if expected_size_in_bytes is not None and download_size != expected_size_in_bytes:\n        if os.path.isfile(tmp_data_set_path):\n            os.remove(tmp_data_set_path)\n        raise exceptions.DataError(\n            "Download of [%s] is corrupt. Downloaded [%d] bytes but [%d] bytes are expected. Please retry."\n            % (local_path, download_size, expected_size_in_bytes)\n        )\n', '    _verify_size(tmp_data_set_path, local_path, expected_size_in_bytes)\n', 'O14.1'),
     V('', 'break', _N, 'def download(url, local_path, expected_size_in_bytes=None, progress_indicator=None):\n', 'def _verify_size(tmp_path, final_path, expected):\n    actual = os.path.getsize(tmp_path)\n    if expected is not None and actual != expected:\n        raise exceptions.DataError("Download of [%s] is corrupt. Downloaded [%d] bytes but [%d] bytes are expected. Please retry." % (final_path, actual, expected))\n\n\ndef download(url, local_path, expected_size_in_bytes=None, progress_indicator=None):\n')],
    [V('extracted size check measures the final path', 'break', _N, '    download_size = os.path.getsize(tmp_data_set_path)\n    if expected_size_in_bytes is not None and download_size != expected_size_in_bytes:\n        if os.path.isfile(tmp_data_set_path):\n            os.remove(tmp_data_set_path)\n        raise exceptions.DataError(\n            "Download of [%s] is corrupt. Downloaded [%d] bytes but [%d] bytes are expected. Please retry."\n            % (local_path, download_size, expected_size_in_bytes)\n        )\n', '    _verify_size(tmp_data_set_path, local_path, expected_size_in_bytes)\n', 'O14.1'),
     V('', 'break', _N, 'def download(url, local_path, expected_size_in_bytes=None, progress_indicator=None):\n', 'def _verify_size(tmp_path, final_path, expected):\n    actual = os.path.getsize(final_path)\n    if expected is not None and actual != expected:\n        if os.path.isfile(tmp_path):\n            os.remove(tmp_path)\n        raise exceptions.DataError("Download of [%s] is corrupt. Downloaded [%d] bytes but [%d] bytes are expected. Please retry." % (final_path, actual, expected))\n\n\ndef download(url, local_path, expected_size_in_bytes=None, progress_indicator=None):\n')],
    V('temporary name as an f-string', 'keep', _N, '    tmp_data_set_path = local_path + ".tmp"', '    tmp_data_set_path = f"{local_path}.tmp"'),
    V('broad handler removes the temporary file inside try / except FileNotFoundError', 'keep', _N, '        if os.path.isfile(tmp_data_set_path):\n            os.remove(tmp_data_set_path)\n        raise\n', '        try:\n            os.remove(tmp_data_set_path)\n        except FileNotFoundError:\n            pass\n        raise\n'),
    [V('F24 respelled: the publishing rename extracted into a helper function', 'keep', _I, '            os.replace(file_offset_table.offset_table_path, final_path)\n', '            _publish(file_offset_table.offset_table_path, final_path)\n'),
     V('', 'keep', _I, 'def prepare_file_offset_table(', 'def _publish(tmp_path, final_path):\n    os.replace(tmp_path, final_path)\n\n\ndef prepare_file_offset_table(')],
    [V('F24: extracted publishing helper renames in the wrong direction', 'break', _I, '            os.replace(file_offset_table.offset_table_path, final_path)\n', '            _publish(file_offset_table.offset_table_path, final_path)\n', 'O14.8'),
     V('', 'break', _I, 'def prepare_file_offset_table(', 'def _publish(tmp_path, final_path):\n    os.replace(final_path, tmp_path)\n\n\ndef prepare_file_offset_table(')],
    # ---- hardening round 3: the reader of the offset table and the retry budget are decided on values (exec_small) ------------------------------------------------
    V('reader as a guard clause: the closest entry is remembered, the remainder computed once at the end', 'keep', _I, _FC_OLD, _FC_NEW),
    V('reader as a guard clause that also stops AT the target line (entry L == target is not used)', 'break', _I, _FC_OLD, _FC_NEW.replace('if line_number > target_line_number:', 'if line_number >= target_line_number:'), 'O14.6'),
    V('reader as a guard clause: the offset is remembered before the guard (offset of the first larger entry)', 'break', _I, _FC_OLD,
      _FC_NEW.replace('            closest_line_number = line_number\n            closest_offset = offset_in_bytes\n', '            closest_line_number = line_number\n')
      .replace('            if line_number > target_line_number:', '            closest_offset = offset_in_bytes\n            if line_number > target_line_number:'), 'O14.6'),
    V('reader as a guard clause: without a matching entry one line too few remains', 'break', _I, _FC_OLD, _FC_NEW.replace('        closest_line_number = 0\n', '        closest_line_number = 1\n'), 'O14.6'),
    V('reader without the early break (same result on an ascending table)', 'keep', _I, '                prior_remaining_lines = target_line_number - line_number\n            else:\n                break\n',
      '                prior_remaining_lines = target_line_number - line_number\n'),
    V('reader keeps the remainder relative to the wrong local (offset instead of line number)', 'break', _I, '                prior_remaining_lines = target_line_number - line_number\n',
      '                prior_remaining_lines = target_line_number - offset_in_bytes\n', 'O14.6'),
    V('reader starts from offset 1', 'break', _I, '        prior_offset = 0\n        prior_remaining_lines = target_line_number\n', '        prior_offset = 1\n        prior_remaining_lines = target_line_number\n', 'O14.6'),
    [V('retry budget as a keyword parameter resolved at call time (retries=None -> module constant)', 'keep', _N, _DH_OLD, _DH_NEW),
     V('', 'keep', _N, '            if i == HTTP_DOWNLOAD_RETRIES:\n                raise\n            logger.warning("Retrying after %s", exc)\n            sleep(5)\n',
       '            if i == retries:\n                logger.warning("Giving up on [%s] after %d failed attempts.", url, i + 1)\n                raise\n            logger.warning("Retrying after %s (attempt %d of %d failed)", exc, i + 1, retries + 1)\n            sleep(retry_delay)\n')],
    [V('retry budget parameter: one attempt too few, the last error is swallowed', 'break', _N, _DH_OLD, _DH_NEW.replace('for i in range(retries + 1):', 'for i in range(retries):'), 'O14.2'),
     V('', 'break', _N, '            if i == HTTP_DOWNLOAD_RETRIES:\n', '            if i == retries:\n')],
    [V('retry budget parameter: the default resolves to no retry at all', 'break', _N, _DH_OLD, _DH_NEW.replace('        retries = HTTP_DOWNLOAD_RETRIES\n', '        retries = 0\n'), 'O14.2'),
     V('', 'break', _N, '            if i == HTTP_DOWNLOAD_RETRIES:\n', '            if i == retries:\n')],
    [V('retry budget parameter: net.download passes retries=0 on the corpus path', 'break', _N, _DH_OLD, _DH_NEW, 'O14.2'),
     V('', 'break', _N, '            if i == HTTP_DOWNLOAD_RETRIES:\n', '            if i == retries:\n'),
     V('', 'break', _N, '            expected_size_in_bytes = download_http(url, tmp_data_set_path, expected_size_in_bytes, progress_indicator)',
       '            expected_size_in_bytes = download_http(url, tmp_data_set_path, expected_size_in_bytes, progress_indicator, retries=0)')],
    # ---- hardening round 4: the library fallback per (tool present, external run succeeded); splitext interpreted over a derived suffix table; offset-table removal decided on values ----
    [V('fallback: the early return became a flag that is tested in front of the library call (plus a log line)', 'keep', _I, _DM_OLD, _DM_FLAG),
     V('', 'keep', _I, _DM_LIB_OLD, _DM_LIB_FLAG)],
    [V('fallback flag: the result of the external run is ignored (the flag is set whatever it reports)', 'break', _I, _DM_OLD,
       _DM_FLAG.replace('        if _do_decompress_manually_external(target_directory, filename, base_path_without_extension, decompressor_args):\n            decompressed_with = decompressor_bin\n',
                        '        _do_decompress_manually_external(target_directory, filename, base_path_without_extension, decompressor_args)\n        decompressed_with = decompressor_bin\n'), 'O14.5'),
     V('', 'break', _I, _DM_LIB_OLD, _DM_LIB_FLAG)],
    [V('fallback flag: tested with the wrong polarity (the library runs only after a successful external run)', 'break', _I, _DM_OLD, _DM_FLAG, 'O14.5'),
     V('', 'break', _I, _DM_LIB_OLD, _DM_LIB_FLAG.replace('if decompressed_with is None:', 'if decompressed_with is not None:'))],
    [V('fallback flag: initialised with the tool name (never None: the library is never used)', 'break', _I, _DM_OLD, _DM_FLAG.replace('    decompressed_with = None\n', '    decompressed_with = decompressor_bin\n'), 'O14.5'),
     V('', 'break', _I, _DM_LIB_OLD, _DM_LIB_FLAG)],
    [V('fallback as one condition: `ok = is_executable(..) and external(..)`; `if not ok: <library>`', 'keep', _I, _DM_OLD,
       '    ok = is_executable(decompressor_bin) and _do_decompress_manually_external(target_directory, filename, base_path_without_extension, decompressor_args)\n    if not is_executable(decompressor_bin):\n'),
     V('', 'keep', _I, _DM_LIB_OLD, '    if not ok:\n        _do_decompress_manually_with_lib(target_directory, filename, decompressor_lib(filename))\n')],
    [V('splitext: search loop over a suffix table derived from SUPPORTED_ARCHIVE_FORMATS, str.removesuffix', 'keep', _I, _SE_OLD, _SE_LOOP),
     V('', 'keep', _I, _SAF_OLD, _SAF_OLD + _SAF_DERIVED)],
    [V('splitext loop: the derived suffix table is empty (filter asks for more than two dots)', 'break', _I, _SE_OLD, _SE_LOOP, 'O14.5'),
     V('', 'break', _I, _SAF_OLD, _SAF_OLD + _SAF_DERIVED.replace('> 1)', '> 2)'))],
    [V('splitext loop: the root is cut by a fixed suffix instead of the matched one', 'break', _I, _SE_OLD, _SE_LOOP.replace('file_name.removesuffix(extension)', 'file_name.removesuffix(".gz")'), 'O14.5'),
     V('', 'break', _I, _SAF_OLD, _SAF_OLD + _SAF_DERIVED)],
    [V('splitext loop: endswith(<whole table>) - the first suffix is reported for every compound archive', 'break', _I, _SE_OLD, _SE_LOOP.replace('file_name.endswith(extension)', 'file_name.endswith(_COMPOUND_ARCHIVE_EXTENSIONS)'), 'O14.5'),
     V('', 'break', _I, _SAF_OLD, _SAF_OLD + _SAF_DERIVED)],
    [V('table removal: optional missing_ok parameter (try / except FileNotFoundError), the invalidation calls it without an existence test', 'keep', _L, _INV_OLD, _INV_MISSING_OK),
     V('', 'keep', _I, _RM_OLD, _RM_MISSING_OK),
     V('', 'keep', _I, _RMW_OLD, _RMW_MISSING_OK)],
    [V('table removal with missing_ok as an early return (`if missing_ok and not exists: return`)', 'keep', _L, _INV_OLD, _INV_MISSING_OK),
     V('', 'keep', _I, _RM_OLD, _RM_MISSING_OK.replace('        try:\n            os.remove(f"{data_file_path}.offset")\n        except FileNotFoundError:\n            if not missing_ok:\n                raise\n',
                                                      '        if missing_ok and not os.path.exists(f"{data_file_path}.offset"):\n            return\n        os.remove(f"{data_file_path}.offset")\n')),
     V('', 'keep', _I, _RMW_OLD, _RMW_MISSING_OK)],
    [V('table removal: missing_ok=True returns before anything is removed (the invalidation is a no-op)', 'break', _L, _INV_OLD, _INV_MISSING_OK, 'O14.9'),
     V('', 'break', _I, _RM_OLD, _RM_MISSING_OK.replace('        try:\n            os.remove(f"{data_file_path}.offset")\n        except FileNotFoundError:\n            if not missing_ok:\n                raise\n',
                                                       '        if missing_ok:\n            return\n        os.remove(f"{data_file_path}.offset")\n')),
     V('', 'break', _I, _RMW_OLD, _RMW_MISSING_OK)],
    [V('table removal with missing_ok: the table of another file (the archive) is removed after the document was re-created', 'break', _L, _INV_OLD,
       _INV_MISSING_OK.replace('(document_file_path, missing_ok=True)', '(document_file_path + ".gz", missing_ok=True)'), 'O14.9'),
     V('', 'break', _I, _RM_OLD, _RM_MISSING_OK),
     V('', 'break', _I, _RMW_OLD, _RMW_MISSING_OK)],
    [V('pass-through wrapper inlined: callers use FileOffsetTable.remove (a classmethod that asks the reading factory for the name), existence asked of the table object', 'keep', _L, _INV_OLD, _INV_OBJ),
     V('', 'keep', _L, '            io.remove_file_offset_table(document_file_path)\n            raise exceptions.DataError(', '            io.FileOffsetTable.remove(data_file_path=document_file_path)\n            raise exceptions.DataError('),
     V('', 'keep', _I, _RM_OLD, _RM_CLS)],
    [V('existence asked of the table object with the wrong polarity (removed only when there is none)', 'break', _L, _INV_OLD, _INV_OBJ.replace('        if io.', '        if not io.'), 'O14.9'),
     V('', 'break', _L, '            io.remove_file_offset_table(document_file_path)\n            raise exceptions.DataError(', '            io.FileOffsetTable.remove(data_file_path=document_file_path)\n            raise exceptions.DataError('),
     V('', 'break', _I, _RM_OLD, _RM_CLS)],
    V('existence asked of the table object of another file', 'break', _L, _INV_OLD, _INV_OBJ.replace('read_for_data_file(document_file_path)', 'read_for_data_file(document_file_path + ".bak")').replace('io.FileOffsetTable.remove(', 'io.remove_file_offset_table('), 'O14.9'),
    V('the table is removed when the validity test would accept it (`if <table>.is_valid(): remove` - an invalid one is rebuilt anyway)', 'keep', _L, '        if os.path.exists(f"{document_file_path}.offset"):\n',
      '        if io.FileOffsetTable.read_for_data_file(document_file_path).is_valid():\n'),
    V('classmethod remove() asks the WRITING name of another suffix (removes <file>.offsets)', 'break', _I, _RM_OLD, _RM_CLS.replace('cls.read_for_data_file(data_file_path).offset_table_path', 'cls.read_for_data_file(data_file_path).offset_table_path + "s"'), 'O14.'),
    [V('table step inside the state loop in front of the break', 'keep', _L, '            if self.is_locally_available(doc_path) and self.has_expected_size(doc_path, document_set.uncompressed_size_in_bytes):\n                break\n',
       '            if self.is_locally_available(doc_path) and self.has_expected_size(doc_path, document_set.uncompressed_size_in_bytes):\n                self.create_file_offset_table(doc_path, document_set.number_of_lines)\n                break\n'),
     V('', 'keep', _L, '                    raise\n\n        self.create_file_offset_table(doc_path, document_set.number_of_lines)\n', '                    raise\n')],
    [V('fallback: the result of the external run chosen by a conditional expression (`external(..) if is_executable(..) else False`)', 'keep', _I, _DM_OLD, _DM_TERNARY),
     V('', 'keep', _I, _DM_LIB_OLD, '    if not tool_ok:\n    ' + _DM_LIB_OLD)],
    [V('fallback by conditional expression: a missing tool counts as success (nothing is decompressed)', 'break', _I, _DM_OLD, _DM_TERNARY.replace('else False\n', 'else True\n'), 'O14.5'),
     V('', 'break', _I, _DM_LIB_OLD, '    if not tool_ok:\n    ' + _DM_LIB_OLD)],
    V('invalidation through a table object held in a local (`t = read_for_data_file(p)`; `if t.exists(): os.remove(t.offset_table_path)`)', 'keep', _L, _INV_OLD,
      '        table = io.FileOffsetTable.read_for_data_file(document_file_path)\n        if table.exists():\n            os.remove(table.offset_table_path)\n'),
    V('invalidation through a table object: the DATA file attribute is removed instead of the table', 'break', _L, _INV_OLD,
      '        table = io.FileOffsetTable.read_for_data_file(document_file_path)\n        if table.exists():\n            os.remove(table.data_file_path)\n', 'O14.9'),
    V('invalidation as pathlib unlink(missing_ok=True) of the table name', 'keep', _L, _INV_OLD, '        pathlib.Path(f"{document_file_path}.offset").unlink(missing_ok=True)\n'),
    # seeded m13: the path the transfer writes to must differ from the final name in EVERY world (declared / undeclared size, HTTP / bucket URL, progress indicator given or not)
    V('seed m13: without a declared size the transfer is handed the final name (conditional expression)', 'break', _N, _TMP_OLD,
      '    tmp_data_set_path = local_path + ".tmp" if expected_size_in_bytes is not None else local_path\n', 'O14.1'),
    V('the temporary name is reset to the final name by a later `if` when no size is declared', 'break', _N, _TMP_OLD,
      _TMP_OLD + '    if expected_size_in_bytes is None:\n        tmp_data_set_path = local_path\n', 'O14.1'),
    V('temporary name with an empty suffix', 'break', _N, _TMP_OLD, '    tmp_data_set_path = local_path + ""\n', 'O14.1'),
    V('the "temporary" name is an alias of the final name', 'break', _N, _TMP_OLD, '    tmp_data_set_path = local_path\n', 'O14.1'),
    V('the final name is used whenever a progress indicator is given', 'break', _N, _TMP_OLD, '    tmp_data_set_path = local_path + ".tmp" if progress_indicator is None else local_path\n', 'O14.1'),
    V('bucket downloads are written to the final name (suffix chosen by URL prefix)', 'break', _N, _TMP_OLD,
      '    tmp_data_set_path = local_path + ("" if url.startswith("s3://") else ".tmp")\n', 'O14.1'),
    V('temporary suffix held in a local', 'keep', _N, _TMP_OLD, '    suffix = ".tmp"\n    tmp_data_set_path = local_path + suffix\n'),
    V('temporary suffix depends on whether a size is declared (never empty)', 'keep', _N, _TMP_OLD, '    tmp_data_set_path = local_path + (".tmp" if expected_size_in_bytes is not None else ".part")\n'),
    V('temporary name bound in both arms of an `if` (never the final name)', 'keep', _N, _TMP_OLD,
      '    if expected_size_in_bytes is None:\n        tmp_data_set_path = local_path + ".part"\n    else:\n        tmp_data_set_path = local_path + ".tmp"\n'),
    # seeded m14: every used corpus reaches a task and the task still carries it when the generator is exhausted (the consumer collects all tasks first)
    V('seed m14: one parameter dict hoisted out of the loop, only its "corpus" entry is set per iteration', 'break', _L, _GEN_OLD,
      '        params = {"cfg": self.cfg, "track": track, "preparator": prep}\n        for corpus in used_corpora(track):\n            params["corpus"] = corpus\n'
      '            yield DefaultTrackPreparator.prepare_docs, params\n', 'O14.10'),
    V('shared parameter dict updated in place with .update(corpus=...)', 'break', _L, _GEN_OLD,
      '        common = dict(cfg=self.cfg, track=track, preparator=prep)\n        for corpus in used_corpora(track):\n            common.update(corpus=corpus)\n'
      '            yield DefaultTrackPreparator.prepare_docs, common\n', 'O14.10'),
    V('the yield left the loop: one task, for the last corpus only', 'break', _L, _GEN_OLD,
      '        for corpus in used_corpora(track):\n            params = {"cfg": self.cfg, "track": track, "corpus": corpus, "preparator": prep}\n'
      '        yield DefaultTrackPreparator.prepare_docs, params\n', 'O14.10'),
    V('the first used corpus is skipped', 'break', _L, _GEN_OLD,
      '        for corpus in list(used_corpora(track))[1:]:\n            params = {"cfg": self.cfg, "track": track, "corpus": corpus, "preparator": prep}\n'
      '            yield DefaultTrackPreparator.prepare_docs, params\n', 'O14.10'),
    V('tasks collected in a list of (func, params) pairs that all alias one dict, then yielded', 'break', _L, _GEN_OLD,
      '        params = {"cfg": self.cfg, "track": track, "preparator": prep}\n        tasks = []\n        for corpus in used_corpora(track):\n            params["corpus"] = corpus\n'
      '            tasks.append((DefaultTrackPreparator.prepare_docs, params))\n        yield from tasks\n', 'O14.10'),
    V('common parameters hoisted, a NEW dict per task ({**common, "corpus": corpus})', 'keep', _L, _GEN_OLD,
      '        common = {"cfg": self.cfg, "track": track, "preparator": prep}\n        for corpus in used_corpora(track):\n'
      '            yield DefaultTrackPreparator.prepare_docs, {**common, "corpus": corpus}\n'),
    V('common parameters hoisted, copied per task before the corpus is set', 'keep', _L, _GEN_OLD,
      '        common = {"cfg": self.cfg, "track": track, "preparator": prep}\n        for corpus in used_corpora(track):\n            params = common.copy()\n'
      '            params["corpus"] = corpus\n            yield DefaultTrackPreparator.prepare_docs, params\n'),
    V('tasks produced by `yield from` over a generator expression, dict(common, corpus=...)', 'keep', _L, _GEN_OLD,
      '        common = dict(cfg=self.cfg, track=track, preparator=prep)\n'
      '        yield from ((DefaultTrackPreparator.prepare_docs, dict(common, corpus=corpus)) for corpus in used_corpora(track))\n'),
    V('corpora held in a local and enumerated', 'keep', _L, _GEN_OLD,
      '        corpora = list(used_corpora(track))\n        for _, corpus in enumerate(corpora):\n            params = {"cfg": self.cfg, "track": track, "corpus": corpus, "preparator": prep}\n'
      '            yield DefaultTrackPreparator.prepare_docs, params\n'),
    # ---- hardening round 5: the retry protocol decided per world (which attempts are cut off, with which class) on the interpreted function; (target, size) pairs and the
    # (re)creating calls followed through helper methods that return a record / a pair ----
    [V('b13: N attempts that may fail, the last one outside the try; pause and retried classes as module-level names', 'keep', _N, _RL_OLD, _RL_TAIL),
     V('', 'keep', _N, _RC_OLD, _RC_NEW)],
    [V('b13 shape without the last attempt behind the loop (the error of the last attempt is swallowed, None is returned)', 'break', _N, _RL_OLD,
       _RL_TAIL.replace('SECONDS)\n    return _download_http(url, local_path, expected_size_in_bytes, progress_indicator)\n', 'SECONDS)\n    return None\n'), 'O14.2'),
     V('', 'break', _N, _RC_OLD, _RC_NEW)],
    [V('b13 shape, the tuple of retried classes widened to every urllib3 error', 'break', _N, _RL_OLD, _RL_TAIL, 'O14.2'),
     V('', 'break', _N, _RC_OLD, _RC_NEW.replace('urllib3.exceptions.ReadTimeoutError)', 'urllib3.exceptions.ReadTimeoutError, urllib3.exceptions.HTTPError)'))],
    [V('b13 shape, the last attempt is made without the declared size', 'break', _N, _RL_OLD,
       _RL_TAIL.replace('SECONDS)\n    return _download_http(url, local_path, expected_size_in_bytes, progress_indicator)\n', 'SECONDS)\n    return _download_http(url, local_path, None, progress_indicator)\n'), 'O14.2'),
     V('', 'break', _N, _RC_OLD, _RC_NEW)],
    [V('b13 shape, the last attempt is wrapped as well and its error logged', 'break', _N, _RL_OLD,
       _RL_TAIL.replace('SECONDS)\n    return _download_http(url, local_path, expected_size_in_bytes, progress_indicator)\n',
                        'SECONDS)\n    try:\n        return _download_http(url, local_path, expected_size_in_bytes, progress_indicator)\n    except _RETRYABLE_HTTP_ERRORS as exc:\n'
                        '        logger.warning("Giving up after %s", exc)\n'), 'O14.2'),
     V('', 'break', _N, _RC_OLD, _RC_NEW)],
    V('retry loop as `while True` with an attempt counter', 'keep', _N, _RL_OLD, _RL_WHILE),
    V('while loop with a counter: the exhausted budget leaves the loop by break (None is returned)', 'break', _N, _RL_OLD, _RL_WHILE.replace('                raise\n', '                break\n'), 'O14.2'),
    V('while loop with a counter that is never advanced (retries forever)', 'break', _N, _RL_OLD, _RL_WHILE.replace('        attempt += 1\n', ''), 'O14.2'),
    V('the error of the last attempt is wrapped into another exception (still an explicit error), behind a log line', 'keep', _N, '            if i == HTTP_DOWNLOAD_RETRIES:\n                raise\n',
      '            if i == HTTP_DOWNLOAD_RETRIES:\n                logger.error("Giving up after %d attempts", i + 1)\n                raise ConnectionError(f"download of [{url}] failed") from exc\n'),
    [V('b12: download target chosen by a helper method that returns a NamedTuple, download + error translation in a second helper', 'keep', _L, _DT_IMPORT_OLD, _DT_IMPORT_NEW),
     V('', 'keep', _L, _DT_CLS_OLD, _DT_CLS_NEW), V('', 'keep', _L, _DT_ARM_OLD, _DT_ARM_NEW)],
    [V('b12 shape, the helper pairs the archive with the uncompressed size', 'break', _L, _DT_IMPORT_OLD, _DT_IMPORT_NEW, 'O14.4'),
     V('', 'break', _L, _DT_CLS_OLD, _DT_CLS_NEW.replace('DownloadTarget(archive_path, document_set.compressed_size_in_bytes)', 'DownloadTarget(archive_path, document_set.uncompressed_size_in_bytes)')),
     V('', 'break', _L, _DT_ARM_OLD, _DT_ARM_NEW)],
    [V('b12 shape, the record is built with keywords in the other order (same pairs)', 'keep', _L, _DT_IMPORT_OLD, _DT_IMPORT_NEW),
     V('', 'keep', _L, _DT_CLS_OLD, _DT_CLS_NEW.replace('DownloadTarget(archive_path, document_set.compressed_size_in_bytes)', 'DownloadTarget(expected_size=document_set.compressed_size_in_bytes, path=archive_path)')),
     V('', 'keep', _L, _DT_ARM_OLD, _DT_ARM_NEW)],
    [V('b12 shape, the invalidation behind the download helper is lost (nothing in the helper removes the table)', 'break', _L, _DT_IMPORT_OLD, _DT_IMPORT_NEW, 'O14.9'),
     V('', 'break', _L, _DT_CLS_OLD, _DT_CLS_NEW),
     V('', 'break', _L, _DT_ARM_OLD, _DT_ARM_NEW.replace('                self.invalidate_file_offset_table(doc_path)\n', ''))],
    [V('download target helper returns a plain pair that is unpacked in the loop', 'keep', _L, _DT_CLS_OLD,
       _DT_CLS_NEW.replace('class DownloadTarget(NamedTuple):\n    path: str\n    expected_size: Optional[int]\n\n\n', '').replace('return DownloadTarget(', 'return (')),
     V('', 'keep', _L, _DT_ARM_OLD, _DT_ARM_PAIR)],
    [V('unpacked pair: the helper hands back the document path with the compressed size', 'break', _L, _DT_CLS_OLD,
       _DT_CLS_NEW.replace('class DownloadTarget(NamedTuple):\n    path: str\n    expected_size: Optional[int]\n\n\n', '').replace('return DownloadTarget(', 'return (')
       .replace('(doc_path, document_set.uncompressed_size_in_bytes)', '(doc_path, document_set.compressed_size_in_bytes)'), 'O14.4'),
     V('', 'break', _L, _DT_ARM_OLD, _DT_ARM_PAIR)],
    [V('unpacked pair: the invalidation after the download is lost', 'break', _L, _DT_CLS_OLD,
       _DT_CLS_NEW.replace('class DownloadTarget(NamedTuple):\n    path: str\n    expected_size: Optional[int]\n\n\n', '').replace('return DownloadTarget(', 'return ('), 'O14.9'),
     V('', 'break', _L, _DT_ARM_OLD, _DT_ARM_PAIR.replace('                self.invalidate_file_offset_table(doc_path)\n', ''))],
    # ---- seeded m17: used_corpora interpreted on model tracks with two challenges (the track's own properties interpreted from track.Track) ----
    V('seed m17: corpora collected from the default challenge instead of the selected one', 'break', _L, _UC_CH_OLD, '        challenge = t.default_challenge\n', 'O14.11'),
    V('corpora collected from the first challenge of the track', 'break', _L, _UC_CH_OLD, '        challenge = t.challenges[0]\n', 'O14.11'),
    V('default challenge preferred over the selected one', 'break', _L, _UC_CH_OLD, '        challenge = t.default_challenge or t.selected_challenge\n', 'O14.11'),
    V('a corpus seen again replaces the earlier one (document sets of earlier tasks are lost)', 'break', _L, _UC_BODY_OLD,
      '                if hasattr(param_source, "corpora"):\n                    for c in param_source.corpora:\n                        corpora[c.name] = c\n', 'O14.11'),
    V('a corpus seen again is ignored (setdefault: document sets of later tasks are lost)', 'break', _L, _UC_BODY_OLD,
      '                if hasattr(param_source, "corpora"):\n                    for c in param_source.corpora:\n                        corpora.setdefault(c.name, c)\n', 'O14.11'),
    V('sub-tasks of parallel elements are not visited', 'break', _L, _UC_SUB_OLD, '            for sub_task in [task]:\n                param_source = operation_parameters(t, sub_task)\n', 'O14.11'),
    V('only the first task of the schedule is visited', 'break', _L, '        for task in challenge.schedule:\n            for sub_task in task:\n',
      '        for task in challenge.schedule[:1]:\n            for sub_task in task:\n', 'O14.11'),
    V('selected challenge or, if none, the default one spelled out with the two properties', 'keep', _L, _UC_CH_OLD,
      '        selected = t.selected_challenge\n        challenge = selected if selected is not None else t.default_challenge\n'),
    V('challenge looked up through find_challenge_or_default by the selected challenge\'s name', 'keep', _L, _UC_CH_OLD,
      '        challenge = t.selected_challenge or t.find_challenge_or_default(None)\n'),
    V('union spelled with a membership test, corpora read with getattr(..., [])', 'keep', _L, _UC_BODY_OLD,
      '                for c in getattr(param_source, "corpora", []):\n                    if c.name in corpora:\n                        corpora[c.name] = corpora[c.name].union(c)\n'
      '                    else:\n                        corpora[c.name] = c\n'),
    V('leaf tasks collected by a comprehension first', 'keep', _L, '        for task in challenge.schedule:\n            for sub_task in task:\n',
      '        leaves = [leaf for element in challenge.schedule for leaf in element]\n        for task in [leaves]:\n            for sub_task in task:\n'),
    V('Track.selected_challenge as next(<generator>, None)', 'keep', "esrally/track/track.py", '        for challenge in self.challenges:\n            if challenge.selected:\n                return challenge\n        return None\n',
      '        return next((challenge for challenge in self.challenges if challenge.selected), None)\n'),
    V('Track.selected_challenge_or_default prefers the default challenge', 'break', "esrally/track/track.py", '        return selected if selected else self.default_challenge\n',
      '        return self.default_challenge if self.default_challenge else selected\n', 'O14.11'),
]
