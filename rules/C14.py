"""C14 — corpus preparation ends with complete, verified data or an explicit error (DESIGN.md section 4, C14)."""
from __future__ import annotations

import ast

from sa import pat, source, tables
from sa.cfg import cfg_of, conjuncts, guards, facts, holds
from sa.classes import is_logging_stmt
from sa.minieval import CannotEval, ev
from sa.source import AnchorMissing, arg_of, dotted, is_self_attr, last_attr, local_defs, params_of, short, u, walk_body
from sa.sym import UnknownAtom, oriented

_N = "esrally/utils/net.py"
_I = "esrally/utils/io.py"
_L = "esrally/track/loader.py"


def raises_on_all_paths(g, starts):
    return bool(starts) and all(g.exit.id not in g.reachable([s]) for s in starts)


def method(mod, cls, name):
    """the method `name` of class `cls` (AnchorMissing, not AttributeError, when it is gone)."""
    m = mod.methods(cls).get(name)
    if m is None:
        raise AnchorMissing(f"{mod.relpath}: method {cls.name}.{name} not found")
    return m


def params(f, n):
    """positional parameter names of f; AnchorMissing unless there are at least n."""
    ps = params_of(f)
    if len(ps) < n:
        raise AnchorMissing(f"{getattr(f, 'name', '?')}: expected at least {n} positional parameters, found {ps}")
    return ps


def eval_with(test, vals):
    """value of the extracted expression `test` when every sub-expression whose text is a key of `vals` has the given representative value (minieval; raises CannotEval for anything else)."""

    class S(ast.NodeTransformer):
        def visit(self, n):
            if isinstance(n, ast.expr) and u(n) in vals:
                return ast.Constant(value=vals[u(n)])
            return self.generic_visit(n)

    return ev(S().visit(source.clone(test)), {})


def compared_with(test, name):
    """role 'the measured value': the operand compared (==, !=, <, >, <=, >=; either orientation) with the name `name` inside `test`; None unless there is exactly one such operand."""
    out = {}
    for x in ast.walk(test):
        if isinstance(x, ast.Compare) and len(x.ops) == 1 and isinstance(x.ops[0], (ast.Eq, ast.NotEq, ast.Lt, ast.Gt, ast.LtE, ast.GtE)):
            l, r = x.left, x.comparators[0]
            if u(l) == name and u(r) != name:
                out[u(r)] = r
            elif u(r) == name and u(l) != name:
                out[u(l)] = l
    return list(out.values())[0] if len(out) == 1 else None


# (declared / expected value, measured value, is a mismatch): an undeclared (None) expectation is never a mismatch, a declared one — 0 included — is one iff the values differ (either direction)
_MISMATCH = [(None, 7, False), (None, 0, False), (7, 7, False), (0, 0, False), (7, 6, True), (6, 7, True), (0, 6, True), (6, 0, True)]


def mismatch_table(test, optional, other, pol=True):
    """(ok, detail): the expression `test` (its negation when pol is False) is true exactly for the mismatch cases of _MISMATCH, evaluated on those representative values."""
    wrong = []
    for e, m, want in _MISMATCH:
        try:
            got = bool(eval_with(test, {optional: e, other: m}))
        except CannotEval as x:
            return False, f"cannot evaluate `{u(test)}`: {x}"
        if got != (want if pol else not want):
            wrong.append(f"{optional}={e!r} vs {m!r}: {'treated as a mismatch' if got == pol else 'accepted'}")
    return not wrong, "; ".join(wrong)


_JUMPS = (ast.Raise, ast.Return, ast.Break, ast.Continue)


def outcome(stmt, vals):
    """How the compound statement `stmt` (an `if`; nested ifs, either arm order, split conjunctions all allowed) ends when the sub-expressions named in `vals` have the given representative
    values: tables.decide with every test that matters evaluated by minieval; statements without a raise / return / break / continue inside cannot change the outcome and are skipped.
    CannotEval when the shape or a test is beyond the evaluator (the caller then does not discharge the obligation)."""

    def atom(n, env):
        return bool(eval_with(n, vals))

    def on_stmt(s_, env, b):
        return None if any(isinstance(x, _JUMPS) for x in ast.walk(s_)) else "skip"

    try:
        return tables.decide([stmt], atom, {}, on_stmt=on_stmt)
    except (tables.Unsupported, UnknownAtom) as e:
        raise CannotEval(str(e))


def mismatch_outcomes(stmt, optional, other):
    """(ok, detail, results): `stmt` ends in a raise exactly for the mismatch cases of _MISMATCH (`optional` = the value that may be None = nothing to compare with, `other` = the value it
    is compared with). results maps (optional value, other value) -> tables.Outcome."""
    wrong, res = [], {}
    for e, m, want in _MISMATCH:
        try:
            res[(e, m)] = o = outcome(stmt, {optional: e, other: m})
        except CannotEval as x:
            return False, f"cannot evaluate the test(s) at line {getattr(stmt, 'lineno', '?')}: {x}", {}
        if (o.kind == "raise") != want:
            wrong.append(f"{optional}={e!r} vs {m!r}: {'raises' if o.kind == 'raise' else 'accepted'}")
    return not wrong, "; ".join(wrong), res


def comparing_if(ifs, name):
    """(outermost if, operand compared with `name`): the first `if` of `ifs` that — in its own test or in the test of an if nested in it — compares the name `name` with another value."""
    for n in ifs:
        for x in source.walk_explicit(n):
            if isinstance(x, ast.If):
                m = compared_with(x.test, name)
                if m is not None:
                    return n, m
    return None, None


def block_of(stmt):
    """the statement list that contains stmt."""
    p_ = source.parent(stmt)
    for f_ in ("body", "orelse", "finalbody"):
        b = getattr(p_, f_, None)
        if isinstance(b, list) and any(x is stmt for x in b):
            return b
    return [stmt]


def before_in_block(stmt):
    b = block_of(stmt)
    return b[: [i for i, x in enumerate(b) if x is stmt][0]]


def returned(r):
    """the expression a `return` yields, looking through a temporary bound by the statement just before it (`tmp = E; return tmp`)."""
    v = r.value
    prev = before_in_block(r)
    if isinstance(v, ast.Name) and prev and isinstance(prev[-1], ast.Assign) and len(prev[-1].targets) == 1 and isinstance(prev[-1].targets[0], ast.Name) and prev[-1].targets[0].id == v.id:
        return prev[-1].value
    return v


def same_value(a, b, defs):
    """two expressions denote the same value once single-assignment locals are inlined."""
    return a is not None and b is not None and source.inline(a, defs) == source.inline(b, defs)


def expr(text):
    return ast.parse(text, mode="eval").body


def offset_table_protocol(chk, io_mod, rid):
    """O14.6 / O3.7: writer and reader of the line-offset table agree."""
    if rid not in chk.rules:
        chk.rule(rid, "offset table: the writer counts one line per readline() and records (n, tell()) of the SAME byte-positioned file object only after the n-th line; the reader returns "
                 "(offset(L), target - L) for the largest L <= target; the skipper seeks, then reads exactly the remainder; separator and field order agree", 8,
                 "readers start mid-line or at the wrong line: documents duplicated / lost across clients (multi-byte content, files above 50,000 lines)")
    pf = io_mod.func("prepare_file_offset_table")
    g = cfg_of(pf)
    rl = [n for n in walk_body(pf) if isinstance(n, ast.Call) and last_attr(n.func) == "readline"]
    add = [n for n in walk_body(pf) if isinstance(n, ast.Call) and last_attr(n.func) == "add_offset"]
    inc = [n for n in walk_body(pf) if isinstance(n, ast.AugAssign) and isinstance(n.op, ast.Add) and source.is_const(n.value, 1)]
    if not add:
        raise AnchorMissing("add_offset call in prepare_file_offset_table")
    loop = source.enclosing(add[0], (ast.While, ast.For))
    ok = len(rl) == 1 and loop is not None and source.enclosing(rl[0], (ast.While, ast.For)) is loop
    fobj = u(rl[0].func.value) if rl else None
    chk.ob(rid, "writer reads the data file line by line with readline()", ok, rl[0] if rl else pf, "" if ok else "the file is iterated another way (tell() is not a byte position then)")
    ok = len(inc) == 1 and loop is not None and source.enclosing(inc[0], (ast.While, ast.For)) is loop and not guards(inc[0], stop=loop) and len(rl) == 1 and g.dominated_by_nodes(g.node_of(inc[0]), [g.node_of(rl[0])])
    cnt = u(inc[0].target) if inc else None
    chk.ob(rid, "line counter += 1 once per line read", ok, inc[0] if inc else pf, "")
    a = add[0]
    ok = len(a.args) == 2 and u(a.args[0]) == cnt and isinstance(a.args[1], ast.Call) and last_attr(a.args[1].func) == "tell" and u(a.args[1].func.value) == fobj
    chk.ob(rid, "recorded offset is tell() of the file object being read", ok, a, short(a, 80) + ("" if ok else " — a computed character/byte count is not the position to seek to"))
    ok = bool(inc) and g.dominated_by_nodes(g.node_of(a), [g.node_of(inc[0])]) and not g.path_exists(g.node_of(a), g.node_of(inc[0]), avoid=[g.node_of(loop)] if loop is not None else [])
    chk.ob(rid, "offset recorded after the counter was advanced for that line", ok, a, "")
    # end-of-file test: empty read breaks before counting
    # role: the local that receives the line read (target of the assignment from readline())
    lv = [n.targets[0].id for n in walk_body(pf) if isinstance(n, ast.Assign) and rl and n.value is rl[0] and len(n.targets) == 1 and isinstance(n.targets[0], ast.Name)]
    brk = [n for n in walk_body(pf) if isinstance(n, ast.Break) and source.enclosing(n, (ast.While, ast.For)) is loop] if loop is not None else []
    ok = bool(brk) and bool(inc) and bool(rl) and bool(lv) and pat.guarded(brk[0], "len(V_l) == 0", "not V_l", "V_l == ''", "len(V_l) < 1", stop=loop, binds={"l": lv[0]}) is not None \
        and not g.path_exists(g.node_of(inc[0]), g.node_of(brk[0]), avoid=[g.node_of(loop)])
    chk.ob(rid, "an empty read ends the scan before it is counted", ok, brk[0] if brk else pf, "")
    rets = [n for n in walk_body(pf) if isinstance(n, ast.Return)]
    ok = any(u(r.value) == cnt for r in rets) and any(isinstance(r.value, ast.Constant) and r.value.value is None for r in rets)
    chk.ob(rid, "returns the number of lines read (None when no rebuild was needed)", ok, pf, "")
    op = [n for n in walk_body(pf) if isinstance(n, ast.Call) and dotted(n.func) == "open"]
    ok = bool(op) and (arg_of(op[0], None, "encoding") is not None or any(isinstance(x, ast.Constant) and "b" in str(x.value) for x in op[0].args[1:]))
    chk.ob(rid, "data file opened with a fixed encoding", ok, op[0] if op else pf, "")
    FT = io_mod.cls("FileOffsetTable")
    fm = io_mod.methods(FT)
    ao = method(io_mod, FT, "add_offset")
    fc = method(io_mod, FT, "find_closest_offset")
    params(ao, 3), params(fc, 2)
    wfmt = [n for n in walk_body(ao) if isinstance(n, ast.JoinedStr)]
    wf = None
    if wfmt:
        parts = wfmt[0].values
        if len(parts) == 3 and isinstance(parts[1], ast.Constant) and isinstance(parts[0], ast.FormattedValue) and isinstance(parts[2], ast.FormattedValue):
            wf = (u(parts[0].value), parts[1].value, u(parts[2].value))
    rd = [n for n in walk_body(fc) if isinstance(n, ast.Assign) and isinstance(n.targets[0], ast.Tuple) and any(isinstance(x, ast.Call) and last_attr(x.func) == "split" for x in ast.walk(n.value))]
    ok = False
    rr = [n for n in walk_body(fc) if isinstance(n, ast.Return)]
    if rd and not (len(rd[0].targets[0].elts) == 2 and all(isinstance(t, ast.Name) for t in rd[0].targets[0].elts)):
        raise AnchorMissing("find_closest_offset: the parsed table entry is not unpacked into two names")
    if wf and rd:
        sp = [x for x in ast.walk(rd[0].value) if isinstance(x, ast.Call) and last_attr(x.func) == "split"][0]
        ln, off = [t.id for t in rd[0].targets[0].elts]
        ap = params_of(ao)
        # roles of the two parsed fields, by use: the line number is the one compared with the target line, the offset the one that flows into the first element of the returned pair
        floop_ = source.enclosing(rd[0], ast.For)
        tgt_ = params_of(fc)[1]
        is_line = floop_ is not None and any(isinstance(x, ast.Compare) and len(x.ops) == 1 and {u(x.left), u(x.comparators[0])} == {ln, tgt_} for x in ast.walk(floop_))
        ret0 = u(returned(rr[0]).elts[0]) if rr and isinstance(returned(rr[0]), ast.Tuple) and returned(rr[0]).elts else None
        is_off = floop_ is not None and ret0 is not None and any(isinstance(x, ast.Assign) and u(x.targets[0]) == ret0 and u(x.value) == off for x in ast.walk(floop_))
        ok = bool(sp.args) and source.is_const(sp.args[0], wf[1]) and len(ap) == 3 and wf[0] == ap[1] and wf[2] == ap[2] and is_line and is_off
    chk.ob(rid, "writer format and reader parse agree (separator, field order)", ok, rd[0] if rd else FT, f"writer {wf}")
    ok = False
    if rd:
        ln, off = [t.id for t in rd[0].targets[0].elts]
        tgt = params_of(fc)[1]
        floop = source.enclosing(rd[0], ast.For)
        stores = [n for n in ast.walk(floop) if isinstance(n, ast.Assign) and n is not rd[0] and isinstance(n.targets[0], ast.Name)] if floop is not None else []
        brks = [n for n in ast.walk(floop) if isinstance(n, ast.Break)] if floop is not None else []
        vals = {u(s_.value) for s_ in stores}
        ok = bool(stores) and bool(brks) and all(holds(s_, f"{ln} <= {tgt}", stop=floop) for s_ in stores) and all(holds(b_, f"{ln} > {tgt}", stop=floop) for b_ in brks) \
            and off in vals and f"{tgt} - {ln}" in vals
    chk.ob(rid, "reader: largest L <= target, remaining = target - L, stops at the first larger entry", ok, fc if fc else FT, "")
    inits = {u(n.targets[0]): n.value for n in walk_body(fc) if isinstance(n, ast.Assign) and isinstance(n.targets[0], ast.Name) and source.enclosing(n, ast.For) is None} if fc else {}
    rt_ = returned(rr[0]) if rr else None
    ok = bool(rr) and isinstance(rt_, ast.Tuple) and len(rt_.elts) == 2 and source.is_const(inits.get(u(rt_.elts[0])), 0) and u(inits.get(u(rt_.elts[1]))) == params_of(fc)[1]
    chk.ob(rid, "reader defaults: offset 0 and all lines remaining", ok, rr[0] if rr else FT, "")
    sk = io_mod.func("skip_lines")
    params(sk, 3)
    gs_ = cfg_of(sk)
    seek = [n for n in walk_body(sk) if isinstance(n, ast.Call) and last_attr(n.func) == "seek"]
    rls = [n for n in walk_body(sk) if isinstance(n, ast.Call) and last_attr(n.func) == "readline"]
    un = [n for n in walk_body(sk) if isinstance(n, ast.Assign) and isinstance(n.targets[0], ast.Tuple) and isinstance(n.value, ast.Call) and last_attr(n.value.func) == "find_closest_offset"]
    ok = False
    if seek and rls and un and seek[0].args and un[0].value.args and len(un[0].targets[0].elts) == 2 and all(isinstance(t, ast.Name) for t in un[0].targets[0].elts) \
            and isinstance(seek[0].func, ast.Attribute) and isinstance(rls[0].func, ast.Attribute):
        offv, remv = [t.id for t in un[0].targets[0].elts]
        lp = source.enclosing(rls[0], ast.For)
        ok = u(seek[0].args[0]) == offv and lp is not None and u(lp.iter) == f"range({remv})" and gs_.dominated_by_nodes(gs_.node_of(rls[0]), [gs_.node_of(seek[0])]) and u(un[0].value.args[0]) == params_of(sk)[2] \
            and u(seek[0].func.value) == u(rls[0].func.value) == params_of(sk)[1]
    chk.ob(rid, "skipper: seek(offset) then exactly `remaining` readline() calls on the same file", ok, sk, "")
    fb = [n for n in walk_body(sk) if isinstance(n, ast.Assign) and isinstance(n.targets[0], ast.Name) and u(n.value) == params_of(sk)[2]]
    chk.ob(rid, "without a table all lines are skipped one by one from offset 0", bool(fb), sk, "")
    # freshness: a table is used only when it exists and is at least as new as the data file; the scan is skipped only for such a table
    iv = fm.get("is_valid")
    ent = fm.get("__enter__")
    finit = fm.get("__init__")
    T = D = None
    if ent is not None:
        for n in walk_body(ent):
            if isinstance(n, ast.Call) and dotted(n.func) == "open" and n.args and is_self_attr(n.args[0]):
                T = n.args[0].attr
    if finit is not None:
        first = params(finit, 2)[1]
        for n in walk_body(finit):
            if isinstance(n, ast.Assign) and is_self_attr(n.targets[0]) and u(n.value) == first:
                D = n.targets[0].attr
    ok = False
    detail = ""
    if iv is not None and T and D and T != D:
        rv = [n for n in walk_body(iv) if isinstance(n, ast.Return)]
        if len(rv) == 1:
            cj = conjuncts(returned(rv[0]))
            has_exists = any(isinstance(c, ast.Call) and u(c.func) == "self.exists" for c in cj)
            fresh = any(pat.is_(c, f"os.path.getmtime(self.{T}) >= os.path.getmtime(self.{D})", f"os.path.getmtime(self.{T}) > os.path.getmtime(self.{D})") for c in cj)
            ok = has_exists and fresh and len(cj) == 2
            detail = u(returned(rv[0]))
    chk.ob(rid, "table valid iff it exists and its mtime >= the data file's mtime", ok, iv if iv is not None else FT, detail, key=f"{io_mod.relpath}:FileOffsetTable.is_valid:freshness")
    ivc = [n for n in walk_body(pf) if isinstance(n, ast.Call) and last_attr(n.func) == "is_valid"]
    ok = len(ivc) == 1 and loop is not None and any(f_ is not None for f_ in [pat.guarded(loop, "not E_t.is_valid()")]) and bool(rets) \
        and all(pat.guarded(r, "not E_t.is_valid()") is None for r in rets if isinstance(r.value, ast.Constant) and r.value.value is None)
    chk.ob(rid, "the scan runs iff the table is not valid; None is returned only for a valid table", ok, ivc[0] if ivc else pf, "", key=f"{io_mod.relpath}:prepare_file_offset_table:rebuild-guard")


def gdl_has_normal_return(fn) -> bool:
    """every normal exit of fn is an explicit return statement (the function cannot fall off its end and yield None)."""
    g = cfg_of(fn)
    rets = [g.node_of(n) for n in walk_body(fn) if isinstance(n, ast.Return)]
    return bool(rets) and g.must_pass(g.entry, rets, normal_only=True)


def line_count_rule(chk, rid, ldr):
    """DocumentSetPreparator.create_file_offset_table: a line count that differs from the declared document count (0 lines included) removes the freshly written offset table and
    raises — shared with C03: a table left behind makes the retry skip the count (the table looks up to date) and the slices are then cut from the declared count."""
    cf = method(ldr, ldr.cls("DocumentSetPreparator"), "create_file_offset_table")
    params(cf, 3)
    gc = cfg_of(cf)
    cdefs = local_defs(cf)
    lr = [k for k, v in cdefs.items() if isinstance(v, ast.Call) and last_attr(v.func) == "prepare_file_offset_table"]
    ifs = [n for n in walk_body(cf) if isinstance(n, ast.If)]
    ifs = [n for n in ifs if lr and any(isinstance(x, ast.Name) and x.id == lr[0] for x in ast.walk(n.test))] or ifs
    ok = False
    detail = ""
    if lr and ifs:
        # role: v = the local holding the (optional) number of lines read; the statement is evaluated on representative (lines read, expected) pairs: None (no rebuild) is never a
        # mismatch, a count — 0 included — is one iff it differs from the expected number; the path taken for a mismatch (whichever arm / nesting) removes the table, then raises
        v = lr[0]
        en = params_of(cf)[2]
        detail = f"`{u(ifs[0].test)}`"
        ok, d_, res = mismatch_outcomes(ifs[0], v, en)
        if res:
            hit = res[(7, 6)]
            truthy = hit.kind == "raise" and res[(7, 7)].kind != "raise" and res[(0, 6)].kind != "raise"
            ok = ok and hit.kind == "raise" and raises_on_all_paths(gc, [gc.node_of(hit.node)]) and any(isinstance(x, ast.Call) and last_attr(x.func) == "remove_file_offset_table" for s in before_in_block(hit.node) for x in ast.walk(s))
            if truthy:
                detail += " tests the optional line count by truthiness: a file with 0 lines skips the comparison"
            elif d_:
                detail += " — " + d_
        else:
            detail += " " + d_
    chk.ob(rid, "line-count mismatch (including 0 lines) removes the table and raises", ok, ifs[0] if ifs else cf, detail, key=f"{_L}:DocumentSetPreparator.create_file_offset_table:line-count-check")


def size_verification(f, g, ifs, path, exp):
    """(if node or None, ok, detail) — among `ifs`, the (outermost) one that compares the declared-size parameter `exp` with another value (role: the measured size). ok iff that value is
    os.path.getsize(<path parameter>) (directly or through single-assignment locals) and the statement, evaluated on representative (declared, measured) pairs, ends in a raise exactly
    for a mismatch (None = undeclared is never one, a declared 0 is honoured) — whichever arm / nesting the raise sits in."""
    S, meas = comparing_if(ifs, exp)
    if S is None:
        return None, False, f"no test compares `{exp}` with the size on disk"
    ok, detail, res = mismatch_outcomes(S, exp, u(meas))
    if not same_value(meas, expr(f"os.path.getsize({path})"), local_defs(f)):
        ok, detail = False, f"`{u(meas)}` is not os.path.getsize({path})"
    if ok and not all(raises_on_all_paths(g, [g.node_of(o.node)]) for o in res.values() if o.kind == "raise"):
        ok, detail = False, "the raise for a mismatch is caught inside the function"
    return S, ok, detail


def path_roles(f):
    """(document-file local, archive local, document-set parameter) of a prepare method, by definition: the single-assignment locals computed from <document_set>.document_file / .document_archive."""
    ds = params(f, 2)[1]
    defs = local_defs(f)

    def one(attr):
        ks = [k for k, v in defs.items() if any(isinstance(x, ast.Attribute) and x.attr == attr and u(x.value) == ds for x in ast.walk(v))]
        if len(ks) != 1:
            raise AnchorMissing(f"local computed from {ds}.{attr} in {f.name}")
        return ks[0]

    return one("document_file"), one("document_archive"), ds


# ---------------------------------------------------------------------------------------------------------------------------------------------------------------
# O14.8 (F24) the offset table is published by a rename only / O14.9 (F25) a (re)created document file invalidates its offset table

_REP = "/data/corpus/documents.json"  # representative data-file path on which the extracted path expressions are evaluated (minieval; no repository code runs)
_RENAMES = ("os.rename", "os.replace", "shutil.move")
_REMOVES = ("os.remove", "os.unlink")
_EXISTS = ("os.path.exists", "os.path.isfile", "os.path.lexists")


def subst(e, mapping):
    """fresh copy of the expression e with the (loaded) names of `mapping` replaced by the mapped expressions — one pass, the replacements are not visited again."""

    class S(ast.NodeTransformer):
        def visit_Name(self, n):
            return source.clone(mapping[n.id]) if isinstance(n.ctx, ast.Load) and n.id in mapping else n

    return S().visit(source.clone(e))


def own_params(f):
    ps = params_of(f)
    return ps[1:] if ps and ps[0] in ("self", "cls") else ps


class TableRoles:
    """Roles of io.FileOffsetTable, derived from its code: T = the attribute whose value __enter__ opens, D = the attribute holding the data file's path, the mode the file is opened with,
    the constructor's parameter -> attribute map and the factories (name -> (function, {attribute: expression over the factory's parameters})). `final_expr(d)` is the name under which
    the READING factory looks for the table of the data file denoted by the expression d — the name readers (skip_lines) depend on."""

    def __init__(self, io_mod):
        self.mod = io_mod
        self.cls = FT = io_mod.cls("FileOffsetTable")
        ent, self.init = method(io_mod, FT, "__enter__"), method(io_mod, FT, "__init__")
        opens = [n for n in walk_body(ent) if isinstance(n, ast.Call) and dotted(n.func) == "open" and n.args and is_self_attr(n.args[0])]
        if len(opens) != 1:
            raise AnchorMissing("FileOffsetTable.__enter__: the open(self.<path attribute>, <mode>) call")
        self.T = opens[0].args[0].attr
        self.mode = arg_of(opens[0], 1, "mode")
        ip = params(self.init, 3)
        self.a_of_p = {n.value.id: n.targets[0].attr for n in walk_body(self.init)
                       if isinstance(n, ast.Assign) and len(n.targets) == 1 and is_self_attr(n.targets[0]) and isinstance(n.value, ast.Name) and n.value.id in ip[1:]}
        if self.T not in self.a_of_p.values() or ip[1] not in self.a_of_p:
            raise AnchorMissing(f"FileOffsetTable.__init__: parameters stored in self.{self.T} / the data file attribute")
        self.D = self.a_of_p[ip[1]]
        self.factories = {}
        for name, f in io_mod.methods(FT).items():
            for r in [n for n in walk_body(f) if isinstance(n, ast.Return) and n.value is not None]:
                v = returned(r)
                if isinstance(v, ast.Call) and dotted(v.func) in ("cls", FT.name):
                    self.factories[name] = (f, self.fields(v))
        readers = [(f, fl) for f, fl in self.factories.values() if not self.writes(fl)]
        if not readers:
            raise AnchorMissing("FileOffsetTable: a factory that opens the table for reading")
        self._readers = readers

    def fields(self, ctor_call):
        """{attribute: argument expression} of one FileOffsetTable(...) / cls(...) call."""
        return {self.a_of_p[p]: e for p, e in source.bind_args(ctor_call, self.init).items() if p in self.a_of_p}

    def writes(self, fields) -> bool:
        """the table object built with these constructor arguments opens its file for writing."""
        m = self.mode
        if m is not None and is_self_attr(m):
            m = fields.get(m.attr)
        if m is None:
            return False  # open() without a mode reads
        if isinstance(m, ast.Constant) and isinstance(m.value, str):
            return any(c in m.value for c in "wax+")
        raise AnchorMissing(f"FileOffsetTable: the open mode `{u(m)}` is not a string constant")

    def final_expr(self, data_expr):
        f, fl = self._readers[0]
        ps = own_params(f)
        if len(ps) != 1 or self.T not in fl:
            raise AnchorMissing("FileOffsetTable: reading factory with one data-file parameter")
        return subst(fl[self.T], {ps[0]: data_expr})

    def final(self, data_path=_REP):
        """the table's final name for a concrete data-file path; every reading factory must agree on it."""
        vals = set()
        for f, fl in self._readers:
            ps = own_params(f)
            if len(ps) != 1 or self.T not in fl:
                raise AnchorMissing("FileOffsetTable: reading factory with one data-file parameter")
            try:
                vals.add(ev(fl[self.T], {ps[0]: data_path}))
            except CannotEval as x:
                raise AnchorMissing(f"FileOffsetTable.{f.name}: the table name `{u(fl[self.T])}` cannot be evaluated: {x}")
        if len(vals) != 1 or not all(isinstance(v, str) for v in vals):
            raise AnchorMissing(f"FileOffsetTable: the reading factories disagree on the table's name: {sorted(map(str, vals))}")
        return vals.pop()


class PathFlow:
    """The values a path expression can have at a statement of `fn`, as expressions over fn's parameters: single-assignment locals are replaced by their definitions (resolved where
    they are defined), reads of <X>.<T> by the values of the assignments to that attribute that REACH the statement (reaching definitions on the CFG, exception edges included; the value
    the object was created with is the first definition). Nothing is executed; the resulting expressions are evaluated by minieval on a representative data-file path."""

    def __init__(self, fn, X, T, created, init_expr):
        self.fn, self.X, self.T = fn, X, T
        self.g = cfg_of(fn)
        self.defs = local_defs(fn)
        self.def_stmt = {n.targets[0].id: n for n in walk_body(fn) if isinstance(n, ast.Assign) and len(n.targets) == 1 and isinstance(n.targets[0], ast.Name) and n.targets[0].id in self.defs}
        self.adefs = [(created, init_expr)] + [(n, n.value) for n in walk_body(fn) if isinstance(n, ast.Assign) and len(n.targets) == 1 and self.is_attr(n.targets[0])]

    def is_attr(self, n):
        return self.X is not None and isinstance(n, ast.Attribute) and n.attr == self.T and isinstance(n.value, ast.Name) and n.value.id == self.X

    def opaque_stores(self):
        """stores to <X>.<T> this model does not follow (augmented / tuple / multiple targets, setattr): the caller reports the function as not analysable."""
        out = []
        for n in walk_body(self.fn):
            if isinstance(n, ast.AugAssign) and self.is_attr(n.target):
                out.append(n)
            elif isinstance(n, ast.Assign) and not (len(n.targets) == 1 and self.is_attr(n.targets[0])) and any(self.is_attr(x) and isinstance(x.ctx, ast.Store) for t in n.targets for x in ast.walk(t)):
                out.append(n)
            elif isinstance(n, ast.Call) and dotted(n.func) == "setattr" and n.args and isinstance(n.args[0], ast.Name) and n.args[0].id == self.X:
                out.append(n)
        return out

    def nodes(self, stmt):
        ns = [n for n in self.g.by_ast.get(id(stmt), []) if n.kind not in ("with_exit", "finally_entry", "join")]
        if not ns:
            ns = self.g.nodes_of(stmt)
        return ns

    def reaching(self, stmt):
        st = stmt if isinstance(stmt, ast.stmt) else source.enclosing_stmt(stmt)
        tn = self.nodes(st)
        out = []
        for s, v in self.adefs:
            if s is st:
                continue
            others = [n for s2, _ in self.adefs if s2 is not s for n in self.nodes(s2)]
            if any(self.g.path_exists(d, t, avoid=[o for o in others if o.id != t.id]) for d in self.nodes(s) for t in tn if d.id != t.id):
                out.append((s, v))
        return out

    def resolve(self, e, stmt, depth=0):
        """the alternatives for the value of expression e read at statement stmt, over parameters only (CannotEval when a chain is too deep / nothing reaches)."""
        if depth > 8:
            raise CannotEval(f"definition chain of `{u(e)[:50]}` is too deep")
        alts = [source.clone(e)]
        if any(self.is_attr(n) and isinstance(n.ctx, ast.Load) for n in ast.walk(e)):
            vals = [r for s, v in self.reaching(stmt) for r in self.resolve(v, s, depth + 1)]
            if not vals:
                raise CannotEval(f"no assignment of {self.X}.{self.T} reaches line {getattr(stmt, 'lineno', '?')}")
            flow = self

            def put(a, val):
                class R(ast.NodeTransformer):
                    def visit_Attribute(self, n):
                        return source.clone(val) if flow.is_attr(n) else self.generic_visit(n)

                return R().visit(source.clone(a))

            alts = [put(a, val) for a in alts for val in vals]
        names = sorted({n.id for n in ast.walk(e) if isinstance(n, ast.Name) and isinstance(n.ctx, ast.Load) and n.id in self.defs and n.id != self.X})
        for nm in names:
            vals = self.resolve(self.defs[nm], self.def_stmt[nm], depth + 1)
            alts = [subst(a, {nm: val}) for a in alts for val in vals]
        if len(alts) > 16:
            raise CannotEval(f"too many alternatives for `{u(e)[:50]}`")
        return alts

    def values(self, e, stmt, env):
        out = set()
        for a in self.resolve(e, stmt):
            v = ev(a, dict(env))
            if not isinstance(v, str):
                raise CannotEval(f"`{u(e)[:50]}` does not evaluate to a path string")
            out.add(v)
        return out


def calls_named(repo, name, mention=None):
    """every call in the package whose callee's last name component is `name` (who-may-call by name) — only the modules whose text mentions `mention` (default: the name) are parsed."""
    out = []
    for p in repo.package_files():
        if (mention or name) in repo.text(p):
            out += [n for n in ast.walk(repo.module(p).tree) if isinstance(n, ast.Call) and last_attr(n.func) == name]
    return out


def writer_sites(repo, roles):
    """[(call, {attribute: expression in the caller's terms})]: every call in the package, outside FileOffsetTable itself, that yields a FileOffsetTable opened for WRITING (a writing
    factory, or the constructor with a write mode)."""
    out = []
    FT = roles.cls
    for name, (f, fl) in roles.factories.items():
        if not roles.writes(fl):
            continue
        for c in calls_named(repo, name):
            d = dotted(c.func) or ""
            if not d.endswith(f"{FT.name}.{name}") or source.enclosing_class(c) is FT:
                continue
            if roles.T not in fl:
                raise AnchorMissing(f"FileOffsetTable.{name}: the constructor argument stored in self.{roles.T}")
            b = source.bind_args(c, f)
            out.append((c, {a: subst(e, b) for a, e in fl.items()}))
    for c in calls_named(repo, FT.name):
        if source.enclosing_class(c) is FT:
            continue
        fl = roles.fields(c)
        if roles.T in fl and roles.writes(fl):
            out.append((c, fl))
    return out


def offset_table_publication(chk, repo, io_mod, rid="O14.8"):
    """F24: typestate of the offset table's FINAL name — the same protocol as the download (O14.1): written under another name, produced by one rename after the writer is done."""
    chk.rule(rid, "offset-table build (io.prepare_file_offset_table and any other holder of a write-mode FileOffsetTable): the file is written under a temporary name that differs from the name "
                  "the readers and the validity test use; that final name is produced only by rename(temporary, final), which runs only after the writing `with` block has completed normally "
                  "(file closed, every line counted) and on every such path; no other code opens an offset-table name for writing", 5,
             "an interrupted build (Ctrl-C, kill, UnicodeDecodeError on a truncated document file) leaves an unfinished table under the final name; it is newer than the data file, so the next run "
             "takes it as valid, does not rebuild it and skips the line-count check: a truncated corpus is reported as ready (size undeclared / test mode)")
    roles = TableRoles(io_mod)
    final_rep = roles.final()
    sites = writer_sites(repo, roles)
    if not sites:
        raise AnchorMissing("no code in the package obtains a FileOffsetTable opened for writing")
    analysed = 0
    for call, fields in sites:
        fn = source.enclosing_func(call)
        if fn is None:
            chk.unknown(rid, "a write-mode FileOffsetTable is created outside a function", call)
            continue
        mod = source.module_of(call)
        chk.use(mod)
        where = f"{mod.relpath}:{source.qualname(fn)}"
        par = source.parent(call)
        X, created = None, None
        if isinstance(par, ast.Assign) and len(par.targets) == 1 and isinstance(par.targets[0], ast.Name) and par.value is call:
            X, created = par.targets[0].id, par
        elif isinstance(par, ast.withitem):
            created = source.enclosing_stmt(call)
        else:
            chk.unknown(rid, f"{where}: the write-mode FileOffsetTable is neither bound to a local nor used directly as a context manager (its use cannot be followed)", call)
            continue
        if X is not None and X not in local_defs(fn):
            chk.unknown(rid, f"{where}: the local `{X}` holding the write-mode FileOffsetTable is bound more than once", call)
            continue
        flow = PathFlow(fn, X, roles.T, created, fields[roles.T])
        # the object must stay in this function: every read of the local is an attribute access / method call on it or the context expression of a `with`
        if X is not None:
            esc = [n for n in walk_body(fn) if isinstance(n, ast.Name) and n.id == X and isinstance(n.ctx, ast.Load) and not isinstance(source.parent(n), (ast.Attribute, ast.withitem))]
            if esc or flow.opaque_stores():
                chk.unknown(rid, f"{where}: the write-mode FileOffsetTable `{X}` escapes (argument / return / alias) or its path attribute is stored in a form that is not followed", (esc or flow.opaque_stores())[0])
                continue
            withs = [n for n in walk_body(fn) if isinstance(n, (ast.With, ast.AsyncWith)) and any(isinstance(it.context_expr, ast.Name) and it.context_expr.id == X for it in n.items)]
            als = {it.optional_vars.id for w in withs for it in w.items if isinstance(it.context_expr, ast.Name) and it.context_expr.id == X and isinstance(it.optional_vars, ast.Name)}
            if any(isinstance(n, ast.Call) and isinstance(n.func, ast.Attribute) and n.func.attr == "__enter__" and u(n.func.value) == X for n in walk_body(fn)) \
                    or any(isinstance(n, ast.Attribute) and n.attr == roles.T and isinstance(n.ctx, ast.Store) and isinstance(n.value, ast.Name) and n.value.id in als for n in walk_body(fn)):
                chk.unknown(rid, f"{where}: `{X}.__enter__()` is called directly, or the path attribute is stored through the `with ... as` alias", call)
                continue
        else:
            withs = [created]
        if not withs:
            continue  # created for writing but never opened here (e.g. only asked whether it is valid): nothing is written through it
        analysed += 1
        g = flow.g
        # the data file the table belongs to, and hence the final name, in this function's terms; evaluated with the data-file parameter(s) := the representative path
        env = {p: _REP for p in params_of(fn)}
        try:
            final = flow.values(roles.final_expr(fields[roles.D]), created, env) if roles.D in fields else {final_rep}
            if len(final) != 1:
                raise CannotEval(f"final name not unique: {sorted(map(str, final))}")
            final = final.pop()
            attr = expr(f"{X}.{roles.T}") if X is not None else fields[roles.T]
            written = set()
            for w in withs:
                written |= flow.values(attr, w, env)
            ren = []
            for r in [n for n in walk_body(fn) if isinstance(n, ast.Call) and dotted(n.func) in _RENAMES]:
                s_, d_ = arg_of(r, 0, "src"), arg_of(r, 1, "dst")
                if s_ is None or d_ is None:
                    raise CannotEval(f"arguments of `{short(r, 60)}`")
                ren.append((r, flow.values(s_, r, env), flow.values(d_, r, env)))
        except CannotEval as x:
            chk.unknown(rid, f"{where}: a path expression of the offset-table build cannot be evaluated: {x}", call)
            continue
        ok = bool(written) and final not in written
        chk.ob(rid, "the table is written under a temporary name, never under its final name", ok, withs[0],
               f"opened for writing: {sorted(map(str, written))}; final name (readers, validity test): {final}" + ("" if ok else " — an interrupted build leaves an unfinished table that the next run trusts"),
               key=f"{where}:offset-table-written-under-a-temporary-name")
        pub = [(r, s_, d_) for r, s_, d_ in ren if final in d_]
        done = [n for w in withs for n in g.by_ast.get(id(w), []) if n.kind == "with_exit"]
        ok = bool(pub) and all(d_ == {final} and s_ and s_ <= written and final not in s_ for _, s_, d_ in pub)
        chk.ob(rid, "the final name is produced by rename(temporary, final)", ok, pub[0][0] if pub else withs[0],
               "; ".join(f"{short(r, 70)}: {sorted(map(str, s_))} -> {sorted(map(str, d_))}" for r, s_, d_ in pub) if pub else "no rename onto the final name: the table is written in place",
               key=f"{where}:offset-table-published-by-rename")
        ok = bool(pub) and bool(done) and all(g.dominated_by_nodes(n, done) for r, _, _ in pub for n in flow.nodes(source.enclosing_stmt(r)))
        chk.ob(rid, "the rename runs only after the writing block has completed normally (table complete and closed)", ok, pub[0][0] if pub else withs[0],
               "" if ok else ("the rename can be reached while the table is still being written, or after the build failed" if pub else "no rename onto the final name"),
               key=f"{where}:offset-table-rename-after-complete-build")
        ok = bool(pub) and bool(done) and all(g.must_pass(n, [x for r, _, _ in pub for x in flow.nodes(source.enclosing_stmt(r))], normal_only=True) for w in withs for n in flow.nodes(w))
        chk.ob(rid, "a completed build is published on every normal path to the return", ok, pub[0][0] if pub else withs[0],
               "" if ok else ("preparation can return without an offset table under the final name" if pub else "no rename onto the final name"), key=f"{where}:offset-table-published-on-every-normal-path")
    if not analysed and not any(m.startswith(rid + ":") for m in chk.inconclusive):
        raise AnchorMissing("no function opens a write-mode FileOffsetTable in a `with` block")
    # no other write-open of an offset-table name (the name's suffix is derived from the reading factory, not spelled here)
    suffix = final_rep[len(_REP):] if final_rep.startswith(_REP) and len(final_rep) > len(_REP) else None
    if suffix is None:
        raise AnchorMissing(f"offset table name `{final_rep}` is not <data file><suffix>")
    bad = []
    for c in calls_named(repo, "open", mention=suffix):
        m_ = arg_of(c, 1, "mode")
        if c.args and isinstance(m_, ast.Constant) and isinstance(m_.value, str) and any(ch in m_.value for ch in "wax+") \
                and any(isinstance(x, ast.Constant) and isinstance(x.value, str) and x.value.endswith(suffix) for x in ast.walk(c.args[0])):
            bad.append(c)
    chk.ob(rid, f"no code opens a `*{suffix}` name for writing directly (FileOffsetTable.__enter__ is the only writer)", not bad, bad[0] if bad else roles.cls,
           short(bad[0], 90) if bad else "", key=f"{io_mod.relpath}:offset-table:direct-write-open")
    return roles


def io_qualname(mod, d):
    """the qualified name inside esrally/utils/io.py that the dotted callee text d denotes in module `mod` (through its imports), or None."""
    if not d:
        return None
    head, _, rest = d.partition(".")
    full = mod.imports.get(head)
    if mod.relpath == _I and full is None:
        return d
    if full is None:
        return None
    full = full + ("." + rest if rest else "")
    pre = _I[:-3].replace("/", ".") + "."
    return full[len(pre):] if full.startswith(pre) else None


def table_removers(io_mod, roles):
    """{qualified name in io.py: parameter}: the functions that, on every normal path, remove the offset table (the name the readers open) of the data file given as that parameter —
    os.remove / os.unlink of an expression that evaluates to the final name, or a call of another such function with the parameter."""
    cands = {source.qualname(f): f for f in list(io_mod.tree.body) + list(roles.cls.body) if isinstance(f, source.FUNC_TYPES)}
    out = {}
    changed = True
    while changed:
        changed = False
        for qn, f in cands.items():
            if qn in out:
                continue
            g = cfg_of(f)
            for p in own_params(f):
                hits = []
                for n in walk_body(f):
                    if not (isinstance(n, ast.Call) and len(n.args) == 1 and not n.keywords):
                        continue
                    d = dotted(n.func) or ""
                    if d in _REMOVES:
                        try:
                            if ev(n.args[0], {p: _REP}) == roles.final():
                                hits.append(n)
                        except CannotEval:
                            pass
                    elif (d in out or (d.startswith("cls.") and f"{roles.cls.name}.{d[4:]}" in out)) and isinstance(n.args[0], ast.Name) and n.args[0].id == p:
                        hits.append(n)
                hn = [x for h in hits for x in g.nodes_of(h)]
                if hn and g.must_pass(g.entry, hn, normal_only=True):
                    out[qn] = p
                    changed = True
                    break
    return out


def recreated_file_invalidates_table(chk, io_mod, ldr, roles, rid="O14.9"):
    """F25: the mtime comparison cannot tell that a table belongs to the document file's predecessor (tarfile restores the archived mtime): whoever (re)creates the file removes the table."""
    chk.rule(rid, "DocumentSetPreparator: every call that (re)creates the document file (decompressing into it, downloading onto it) is followed, on every normal path to the offset-table step, "
                  "by the invalidation of an existing offset table of that file (its removal, or an mtime bump of the new file that makes the validity test reject it) — the table of the file's "
                  "predecessor must not survive, whatever modification time the new file carries", 4,
             "a document re-extracted from an updated .tar / .tar.gz / .tgz / .tar.bz2 archive carries the archived mtime, older than the offset table of its predecessor: the stale table counts "
             "as valid, is not rebuilt, the line count is not checked and bulk clients seek to the old file's offsets (mid-document starts, wrong / duplicated documents)")
    final = roles.final()
    removers = table_removers(io_mod, roles)
    chk.ob(rid, "io offers a function that removes the very name the readers open (used for invalidation and after a line-count mismatch)", bool(removers), roles.cls,
           f"removers: {sorted(removers)}; table name for {_REP}: {final}", key=f"{_I}:offset-table:remover-agrees-with-readers")
    P = ldr.cls("DocumentSetPreparator")

    def is_removal(c, names, env_of):
        """the call c removes the offset table of the file named by one of `names` (env_of(e) evaluates a path expression with that file := the representative path)."""
        if not isinstance(c, ast.Call) or len(c.args) != 1:
            return False
        d = dotted(c.func) or ""
        if d in _REMOVES:
            try:
                return env_of(c.args[0]) == final
            except CannotEval:
                return False
        return io_qualname(ldr, d) in removers and isinstance(c.args[0], ast.Name) and c.args[0].id in names

    def exists_atom(n, env_of):
        if isinstance(n, ast.Call) and dotted(n.func) in _EXISTS and len(n.args) == 1:
            try:
                return True if env_of(n.args[0]) == final else None
            except CannotEval:
                return None
        return None

    def helper_invalidates(h):
        """the method h(self, p), evaluated for the case 'a (stale) table of p exists' (every existence test of the table's name is true): completes normally having removed the table."""
        ps = own_params(h)
        if len(ps) != 1:
            return False
        hdefs = {k: v for k, v in local_defs(h).items() if k != ps[0]}
        env_of = lambda e: ev(source.inline_node(e, hdefs), {ps[0]: _REP})  # noqa: E731 - single-assignment locals (`table = p + ".offset"`) are looked through

        def on_stmt(s_, env, b):
            return "skip" if is_logging_stmt(s_) else None

        try:
            o = tables.decide(h.body, lambda n, env: exists_atom(n, env_of), {}, on_stmt=on_stmt)
        except (tables.Unsupported, UnknownAtom, CannotEval):
            return False
        return o.kind in ("fallthrough", "return") and any(is_removal(c, {ps[0]}, env_of) for c in o.effects)

    helpers = {n: f for n, f in ldr.methods(P).items() if helper_invalidates(f)}
    for name in ("prepare_document_set", "prepare_bundled_document_set"):
        f = method(ldr, P, name)
        g = cfg_of(f)
        docv, _, _ = path_roles(f)
        names = {docv}
        for _ in range(3):  # locals that may denote the document file (`target_path = doc_path` in one arm)
            names |= {n.targets[0].id for n in walk_body(f) if isinstance(n, ast.Assign) and len(n.targets) == 1 and isinstance(n.targets[0], ast.Name) and isinstance(n.value, ast.Name) and n.value.id in names}
        fdefs = {k: v for k, v in local_defs(f).items() if k not in names}
        env_of = lambda e: eval_with(source.inline_node(e, fdefs), {docv: _REP})  # noqa: E731
        creators = [c for c in walk_body(f) if isinstance(c, ast.Call) and isinstance(c.func, ast.Attribute) and c.func.attr in ("decompress", "download") and is_self_attr(c.func.value)
                    and any(isinstance(a, ast.Name) and a.id in names for a in c.args)]
        builds = [c for c in walk_body(f) if isinstance(c, ast.Call) and last_attr(c.func) == "create_file_offset_table" and c.args and isinstance(c.args[0], ast.Name) and c.args[0].id in names]
        if not creators or not builds:
            raise AnchorMissing(f"{name}: calls that (re)create the document file `{docv}` (decompress / download) and the offset-table step")
        # invalidation points: a removal of the table of the document file — direct, through a helper method of the class, or an `if <the table exists>: <removal>` statement
        inv = []
        for n in walk_body(f):
            if isinstance(n, ast.Expr) and isinstance(n.value, ast.Call):
                c = n.value
                direct = is_removal(c, names, env_of)
                helper = isinstance(c.func, ast.Attribute) and is_self_attr(c.func) and c.func.attr in helpers and len(c.args) == 1 and isinstance(c.args[0], ast.Name) and c.args[0].id in names
                # os.utime(<document file>) without explicit times makes the file newer than any existing table: the validity test then rejects the table (same effect as removing it)
                touch = dotted(c.func) == "os.utime" and len(c.args) == 1 and isinstance(c.args[0], ast.Name) and c.args[0].id in names and all(k.arg == "times" and source.is_const(k.value) and k.value.value is None for k in c.keywords)
                if helper or direct or touch:
                    inv.append(n)
            elif isinstance(n, ast.If) and exists_atom(n.test, env_of) and any(isinstance(s_, ast.Expr) and is_removal(s_.value, names, env_of) for s_ in n.body):
                inv.append(n)
        inv_nodes = [x for n in inv for x in g.by_ast.get(id(n), [])]
        try:
            build_nodes = [g.node_of(b) for b in builds]
            creator_nodes = [g.node_of(c) for c in creators]
        except KeyError as x:
            raise AnchorMissing(f"{name}: {x}")
        for c, cn in zip(creators, creator_nodes):
            ok = bool(inv_nodes) and g.must_pass(cn, inv_nodes, exits=build_nodes, normal_only=True)
            path = None
            if not ok:
                for b in build_nodes:
                    p_ = g.find_path(cn, b, avoid=inv_nodes, edge_ok=g.normal_edge)
                    if p_:
                        path = g.describe_path(p_)
                        break
            chk.ob(rid, f"{name}: `{c.func.attr}` into the document file is followed by the invalidation of its old offset table before the table step", ok, c,
                   short(c, 80) + ("" if ok else " — the offset-table step is reached with the predecessor's table still in place: " + " ".join(path or [])), path=path,
                   key=f"{_L}:DocumentSetPreparator.{name}:{c.func.attr}:invalidates-offset-table")


def run(chk):
    repo = chk.repo
    net, io_, ldr = repo.module(_N), repo.module(_I), repo.module(_L)
    chk.use(net, io_, ldr)
    chk.explanation = (
        "Decides the preparation skeleton: downloads write only to a temporary name which is renamed once, behind a size check whose mismatch edge removes it and raises, with a broad "
        "handler that removes it and re-raises; HTTP statuses evaluated over a finite domain (every non-2xx raises); retry loop range(N+1) for the two protocol errors with re-raise on "
        "the last index; existence and size verification after download and after decompression; the state loop exits only under present-and-expected-size and is followed by the offset "
        "table build whose line-count check uses `is not None`; exhaustive archive dispatch with the library fallback on every path; offset table writer/reader protocol; the offset table is "
        "written under a temporary name and published by one rename after the writing block completed (path expressions evaluated on a representative data-file path); every call that "
        "(re)creates the document file is followed by the removal of its old offset table before the table step."
    )
    chk.not_decided = "archive contents, real network behaviour, crash points inside library calls (a kill between two statements of the offset-table build is covered by the rename protocol O14.8; a torn write inside os.replace is not)."

    # ---- O14.1 download is atomic ---------------------------------------------------------------------------------------------------------
    chk.rule("O14.1", "net.download: every writer receives the temporary path, never the final one; the final name is produced by a single rename(tmp, final) dominated by the size comparison "
             "whose mismatch edge removes tmp and raises; the broad handler around the transfer removes tmp and re-raises", 6,
             "an interrupted or short download leaves a partial file under the final name, which the next run accepts when no size is declared")
    dl = net.func("download")
    dp = params(dl, 3)
    final = dp[1]
    g = cfg_of(dl)
    ddefs = local_defs(dl)
    tmpv = [k for k, v in ddefs.items() if isinstance(v, ast.BinOp) and isinstance(v.op, ast.Add) and u(v.left) == final and isinstance(v.right, ast.Constant)]
    if not tmpv:
        raise AnchorMissing("temporary path `local_path + <suffix>` in net.download")
    tmp = tmpv[0]
    writers = [n for n in walk_body(dl) if isinstance(n, ast.Call) and last_attr(n.func) in ("download_http", "download_from_bucket", "_download_http")]
    chk.ob("O14.1", "transfer routines located", len(writers) >= 2, dl, f"{[last_attr(w.func) for w in writers]}")
    for w in writers:
        passes_final = any(isinstance(a, ast.Name) and a.id == final for a in list(w.args) + [k.value for k in w.keywords])
        passes_tmp = any(isinstance(a, ast.Name) and a.id == tmp for a in list(w.args) + [k.value for k in w.keywords])
        chk.ob("O14.1", f"{last_attr(w.func)} writes to the temporary path", passes_tmp and not passes_final, w, short(w, 90))
    ren = [n for n in walk_body(dl) if isinstance(n, ast.Call) and dotted(n.func) in ("os.rename", "os.replace", "shutil.move")]
    ok = len(ren) == 1 and [u(a) for a in ren[0].args] == [tmp, final]
    chk.ob("O14.1", "single rename(tmp, final)", ok, ren[0] if ren else dl, f"{len(ren)} rename(s)")
    # the size check: the (outermost) `if` that compares the expected-size parameter with another value (role: the measured size, which must be getsize(tmp)); what it does for a
    # mismatch / a match is evaluated (tables.decide over representative values), so arm order, nesting and operand order do not matter
    exp = dp[2]
    S, meas = comparing_if([n for n in walk_body(dl) if isinstance(n, ast.If)], exp)
    ok = False
    okt, detail, res = (False, "", {}) if S is None else mismatch_outcomes(S, exp, u(meas))
    if ren and S is not None and res:
        bad_, good_ = res[(7, 6)], res[(7, 7)]
        ok = bad_.kind == "raise" and good_.kind != "raise" and raises_on_all_paths(g, [g.node_of(bad_.node)]) and g.dominated_by_nodes(g.node_of(ren[0]), [g.node_of(S)]) \
            and any(isinstance(x, ast.Call) and dotted(x.func) == "os.remove" and x.args and u(x.args[0]) == tmp for s in before_in_block(bad_.node) for x in ast.walk(s))
        ok = ok and same_value(meas, expr(f"os.path.getsize({tmp})"), ddefs)
    chk.ob("O14.1", "rename only behind the size check; mismatch removes tmp and raises", ok, S if S is not None else dl, "")
    if S is not None:
        # the check compares with the expected size whenever one is known
        chk.ob("O14.1", "size compared whenever an expected size is known", okt, S, detail)
    trys = [n for n in walk_body(dl) if isinstance(n, ast.Try) and any(w in list(ast.walk(n)) for w in writers)]
    ok = False
    if trys:
        T = trys[0]
        broad = [h for h in T.handlers if h.type is None or last_attr(h.type) == "BaseException"]
        if broad:
            h = broad[0]
            rm = any(isinstance(x, ast.Call) and dotted(x.func) == "os.remove" and u(x.args[0]) == tmp for x in ast.walk(h))
            hn = g.by_ast.get(id(h), [])
            ok = rm and bool(hn) and all(g.exit.id not in g.reachable([x]) for x in hn) and isinstance(h.body[-1], ast.Raise) and h.body[-1].exc is None
    chk.ob("O14.1", "broad handler removes tmp and re-raises", ok, trys[0] if trys else dl, "")
    opens_final = [n for n in walk_body(dl) if isinstance(n, ast.Call) and dotted(n.func) == "open" and u(n.args[0]) == final]
    chk.ob("O14.1", "the final name is never opened for writing here", not opens_final, opens_final[0] if opens_final else dl, "")
    # the size the download is verified against is the DECLARED one; the transfer's own Content-Length may stand in only when nothing was declared
    dh = net.func("_download_http")
    ep = [p_ for p_ in params_of(dh) if "size" in p_]
    if not ep:
        raise AnchorMissing("expected-size parameter of _download_http")
    esz = ep[0]
    ow = [n for n in walk_body(dh) if isinstance(n, (ast.Assign, ast.AugAssign)) and any(isinstance(t, ast.Name) and t.id == esz for t in (n.targets if isinstance(n, ast.Assign) else [n.target]))]
    for n in ow:
        ok = pat.guarded(n, f"{esz} is None") is not None
        chk.ob("O14.1", "a declared expected size is never replaced by the response's own Content-Length", ok, n,
               short(n, 70) + ("" if ok else " — a truncated but self-consistent response passes the size check and is renamed to the final name"), key=f"{_N}:_download_http:overwrite-expected-size")
    rets_ = [n for n in walk_body(dh) if isinstance(n, ast.Return) and n.value is not None]
    chk.ob("O14.1", "the transfer returns the size to verify against (declared, else Content-Length)", bool(rets_) and all(u(r.value) == esz for r in rets_), rets_[0] if rets_ else dh, "")

    # the bucket transfer cannot learn a size from the transfer itself: it hands back the DECLARED size, so that net.download compares the bytes on disk with it before renaming
    dfb = net.func("download_from_bucket")
    bsz = [p_ for p_ in params_of(dfb) if "size" in p_]
    brets = [n for n in walk_body(dfb) if isinstance(n, ast.Return)]
    ok = bool(bsz) and bool(brets) and all(r.value is not None and u(returned(r)) == bsz[0] for r in brets) and gdl_has_normal_return(dfb)
    chk.ob("O14.1", "the bucket transfer returns the declared size to verify against", ok, brets[0] if brets else dfb,
           f"returns {[u(r.value) if r.value is not None else None for r in brets]}" + ("" if ok else " — the caller receives None, skips the size comparison and renames a truncated download to the final name"),
           key=f"{_N}:download_from_bucket:returns-declared-size")

    # ---- O14.2 retry budget / HTTP status --------------------------------------------------------------------------------------------------------
    chk.rule("O14.2", "HTTP retry loop: range(N + 1), retry only for the two urllib3 protocol classes, re-raise on the last index, result returned; every non-2xx status raises an HTTP error "
             "(status domain {200,204,299,300,304,399,400,404,500})", 12,
             "a dropped connection aborts at once / retries forever; a 3xx/4xx body is stored as the data file")
    dh = net.func("download_http")
    loops = [n for n in walk_body(dh) if isinstance(n, ast.For)]
    if not loops:
        raise AnchorMissing("retry loop in download_http")
    L = loops[0]
    # the number of attempts, decided on its value: module-level literal constants are bound (whether the loop names one or, after constant propagation N9, holds the literal)
    menv = {}
    for st_ in net.tree.body:
        if isinstance(st_, ast.Assign) and len(st_.targets) == 1 and isinstance(st_.targets[0], ast.Name):
            try:
                menv[st_.targets[0].id] = ast.literal_eval(st_.value)
            except (ValueError, SyntaxError):
                pass
    attempts = None
    if isinstance(L.iter, ast.Call) and dotted(L.iter.func) == "range" and len(L.iter.args) == 1:
        try:
            attempts = eval_with(L.iter.args[0], dict(menv))
        except CannotEval:
            attempts = None
    ok = isinstance(attempts, int) and not isinstance(attempts, bool) and 2 <= attempts < 1000
    chk.ob("O14.2", "range(HTTP_DOWNLOAD_RETRIES + 1)", ok, L, f"{u(L.iter)} = {attempts} attempt(s)" + ("" if ok else " — the transfer is not retried at all (or the count cannot be evaluated)"))
    const = ast.Constant(value=attempts - 1) if ok else None
    chk.ob("O14.2", "retry constant is a positive integer", ok and attempts - 1 > 0, L, "")
    T = [n for n in L.body if isinstance(n, ast.Try)]
    ok = False
    if T and not T[0].handlers:
        raise AnchorMissing("except clause of the retry loop in download_http")
    if T:
        t = T[0]
        tb = [x for x in t.body if not is_logging_stmt(x)] or t.body
        # the attempt is `return _download_http(...)` (possibly through a temporary bound just before the return) and nothing else
        tcall = returned(tb[-1]) if isinstance(tb[-1], ast.Return) and len(tb) == (1 if returned(tb[-1]) is tb[-1].value else 2) else None
        ok = isinstance(tcall, ast.Call) and last_attr(tcall.func) == "_download_http"
        chk.ob("O14.2", "attempt returns the transfer's result", ok, tb[0], "")
        names = sorted(last_attr(e) or "<any>" for h in t.handlers for e in (h.type.elts if isinstance(h.type, ast.Tuple) else [h.type]))
        chk.ob("O14.2", "retry only for ProtocolError / ReadTimeoutError", names == ["ProtocolError", "ReadTimeoutError"], t, f"{names}")
        h = t.handlers[0]
        if not isinstance(L.target, ast.Name):
            raise AnchorMissing("retry loop variable in download_http")
        iv = L.target.id
        # the first statement of the handler (logging aside) is an `if` whose test, evaluated for every index of the loop, is true exactly at the last one, and whose true arm re-raises at once
        hb = [x for x in h.body if not is_logging_stmt(x)]
        ok = False
        detail = ""
        if hb and isinstance(hb[0], ast.If) and isinstance(const, ast.Constant) and isinstance(const.value, int) and not isinstance(const.value, bool) and 0 < const.value < 1000:
            N = const.value
            try:
                tv = [bool(eval_with(hb[0].test, dict(menv, **{iv: k}))) for k in range(N + 1)]
                # whichever arm starts (logging aside) with the bare re-raise must be the one taken exactly at the last index
                arm_t = [x for x in hb[0].body if not is_logging_stmt(x)]
                arm_f = [x for x in hb[0].orelse if not is_logging_stmt(x)]
                bare = lambda a: bool(a) and isinstance(a[0], ast.Raise) and a[0].exc is None  # noqa: E731
                ok = (bare(arm_t) and tv == [k == N for k in range(N + 1)]) or (bare(arm_f) and not bare(arm_t) and tv == [k != N for k in range(N + 1)])
                detail = "" if ok else f"`{u(hb[0].test)}` over {iv} = 0..{N}: {tv}"
            except CannotEval as e:
                detail = f"cannot evaluate `{u(hb[0].test)}`: {e}"
        chk.ob("O14.2", "re-raise on the last index (before anything else)", ok, h, detail)
        a0 = tcall.args if isinstance(tcall, ast.Call) else []
        ok = [u(a) for a in a0[:3]] == params_of(dh)[:3]
        chk.ob("O14.2", "the same url / path / expected size are used on every attempt", ok, tb[0], "")
    dhh = net.func("_download_http")
    st = [n for n in walk_body(dhh) if isinstance(n, ast.If) and ".status" in u(n.test)]
    if not st:
        raise AnchorMissing("status test in _download_http")
    gd = cfg_of(dhh)
    # what the status statement does is evaluated for every status of the domain with <response>.status := status (tables.decide: nested tests / either arm order allowed)
    skey = [u(x) for x in ast.walk(st[0].test) if isinstance(x, ast.Attribute) and x.attr == "status"][0]
    reached = {}
    for status in (200, 204, 299, 300, 304, 399, 400, 404, 500):
        try:
            o = outcome(st[0], {skey: status})
        except CannotEval as e:
            chk.unknown("O14.2", f"status test cannot be evaluated over the status domain: {e}", st[0])
            break
        want = status > 299
        rejected = o.kind == "raise" and raises_on_all_paths(gd, [gd.node_of(o.node)])
        if rejected:
            reached[status] = o.node
        chk.ob("O14.2", f"HTTP {status} {'raises' if want else 'is accepted'}", rejected == want, st[0], f"`{u(st[0].test)}` -> {o.text()[:60]}", key=f"{_N}:_download_http:status:{status}")
    ok = bool(reached) and all(r_.exc is not None and "HTTPError" in u(r_.exc) for r_ in reached.values())
    chk.ob("O14.2", "a rejected status raises HTTPError before any byte is written", ok and not any(isinstance(x, ast.Call) and last_attr(x.func) == "write" and x.lineno < st[0].lineno for x in walk_body(dhh)), st[0], "")
    rq = [n for n in ast.walk(dhh) if isinstance(n, ast.Call) and last_attr(n.func) == "_request"]
    ecl = arg_of(rq[0], None, "enforce_content_length") if rq else None
    chk.ob("O14.2", "short bodies are detected (enforce_content_length)", ecl is not None and source.is_const(ecl, True), rq[0] if rq else dhh, "")

    # ---- O14.3 verification dominates use -----------------------------------------------------------------------------------------------------------------
    chk.rule("O14.3", "downloader: existence and size tests after the transfer, both raising; HTTP and URL errors converted to data errors (never swallowed); decompressor: existence and size "
             "tests after decompression, both raising; base-url / offline guards raise before any transfer", 9,
             "a short/absent file is taken as the corpus")
    D = ldr.cls("Downloader")
    dd = method(ldr, D, "download")
    gdd = cfg_of(dd)
    nd = [n for n in walk_body(dd) if isinstance(n, ast.Call) and dotted(n.func) == "net.download"]
    if not nd:
        raise AnchorMissing("net.download call in Downloader.download")
    ddp = params(dd, 4)
    ok = [u(a) for a in nd[0].args[1:3]] == [ddp[2], ddp[3]]
    chk.ob("O14.3", "transfer called with the target path and the declared size", ok, nd[0], short(nd[0], 90))
    tr = source.enclosing(nd[0], ast.Try)
    if tr is not None:
        for h in tr.handlers:
            hn = gdd.by_ast.get(id(h), [])
            ok = bool(hn) and all(gdd.exit.id not in gdd.reachable([x]) for x in hn) and any(isinstance(x, ast.Raise) and x.exc is not None and "DataError" in u(x.exc) for x in ast.walk(h))
            chk.ob("O14.3", f"`except {u(h.type)}` converts to a data error on every path", ok, h, "")
    post = [n for n in source.flat(dd.body) if isinstance(n, ast.If) and n.lineno > nd[0].lineno]
    # a raise after the transfer whose only explicit guard fact is "the file is not there" (arm / polarity / guard-clause vs if-else form do not matter)
    ex = [x for n in post for x in ast.walk(n) if isinstance(x, ast.Raise) and [f_ for f_ in pat.fact_nodes(x, path_sensitive=False)
          if pat.is_(f_, f"not os.path.isfile({ddp[2]})", f"not os.path.exists({ddp[2]})")] and len(pat.fact_nodes(x, path_sensitive=False)) == 1]
    ok = bool(ex) and raises_on_all_paths(gdd, [gdd.node_of(ex[0])])
    chk.ob("O14.3", "downloader: missing file after the transfer raises", ok, ex[0] if ex else dd, "")
    S, ok, detail = size_verification(dd, gdd, post, ddp[2], ddp[3])
    chk.ob("O14.3", "downloader: size mismatch after the transfer raises", ok, S if S is not None else dd, detail)
    # a raise that is reached exactly when the base URL is empty / offline mode is on, before the transfer (guard facts: polarity- and arm-insensitive)
    pre = [x for n in source.flat(dd.body) if isinstance(n, ast.If) and n.lineno < nd[0].lineno for x in ast.walk(n) if isinstance(x, ast.Raise) and x.lineno < nd[0].lineno]
    xf = lambda x: pat.fact_nodes(x, path_sensitive=False)  # noqa: E731 - the explicit branch conditions of the raise
    tests = {u(f_) for x in pre for f_ in xf(x)}
    ok = any(xf(x) and all(pat.is_(f_, f"not {ddp[1]}") for f_ in xf(x)) and raises_on_all_paths(gdd, [gdd.node_of(x)]) for x in pre) \
        and any(xf(x) and all(pat.is_(f_, "self.offline") for f_ in xf(x)) and raises_on_all_paths(gdd, [gdd.node_of(x)]) for x in pre)
    chk.ob("O14.3", "no base URL / offline mode raise before any transfer", ok, pre[0] if pre else dd, f"{sorted(tests)}")
    DC = ldr.cls("Decompressor")
    dc = method(ldr, DC, "decompress")
    gdc = cfg_of(dc)
    dcp = params(dc, 4)
    idc = [n for n in walk_body(dc) if isinstance(n, ast.Call) and dotted(n.func) == "io.decompress"]
    post = [n for n in source.flat(dc.body) if isinstance(n, ast.If) and idc and n.lineno > idc[0].lineno]
    ex = [x for n in post for x in ast.walk(n) if isinstance(x, ast.Raise) and [f_ for f_ in pat.fact_nodes(x, path_sensitive=False) if pat.is_(f_, f"not os.path.isfile({dcp[2]})")]
          and len(pat.fact_nodes(x, path_sensitive=False)) == 1]
    ok = bool(ex) and raises_on_all_paths(gdc, [gdc.node_of(ex[0])])
    chk.ob("O14.3", "decompressor: missing document file raises", ok, ex[0] if ex else dc, "")
    S, ok, detail = size_verification(dc, gdc, post, dcp[2], dcp[3])
    chk.ob("O14.3", "decompressor: size mismatch raises", ok, S if S is not None else dc, detail)
    ok = bool(idc) and u(idc[0].args[0]) == dcp[1]
    chk.ob("O14.3", "decompressor works on the given archive", ok, idc[0] if idc else dc, "")

    # ---- O14.4 state loop ---------------------------------------------------------------------------------------------------------------------------------
    chk.rule("O14.4", "prepare loop exits by break only under present and expected size; the offset-table step follows every normal loop exit (bundled variant: dominates `return True`); a line-count "
             "mismatch removes the table and raises; the optional line count is tested with `is not None` (0 lines is a mismatch)", 8,
             "a wrong-sized / partial / empty document file is accepted; readers use a stale offset table")
    P = ldr.cls("DocumentSetPreparator")
    pm = ldr.methods(P)
    pds = method(ldr, P, "prepare_document_set")
    gp = cfg_of(pds)
    wl = [n for n in walk_body(pds) if isinstance(n, ast.While)]
    if not wl:
        raise AnchorMissing("state loop in prepare_document_set")
    WL = wl[0]
    docv, archv, dsv = path_roles(pds)
    brks = [n for n in ast.walk(WL) if isinstance(n, ast.Break) and source.enclosing(n, (ast.While, ast.For)) is WL]
    ok = len(brks) == 1
    if ok:
        # the facts that hold at the break (guard facts: arm / polarity / operand order do not matter) are exactly: present, and of the expected (uncompressed) size
        fs = pat.fact_nodes(brks[0], stop=WL)
        szf = [b_ for b_ in (pat.match(f_, f"self.has_expected_size({docv}, E_s)") for f_ in fs) if b_ is not None]
        ok = len(fs) == 2 and any(pat.is_(f_, f"self.is_locally_available({docv})") for f_ in fs) and len(szf) == 1 and "uncompressed_size_in_bytes" in szf[0]["s"]
    chk.ob("O14.4", "loop exits only when the document file is present and has the expected size", ok, brks[0] if brks else WL, "")
    chk.ob("O14.4", "the loop has no other exit (while True, no return)", isinstance(WL.test, ast.Constant) and WL.test.value is True and not any(isinstance(x, ast.Return) for x in ast.walk(WL)), WL, "")
    ot = [n for n in walk_body(pds) if isinstance(n, ast.Call) and last_attr(n.func) == "create_file_offset_table"]
    ok = bool(ot) and WL not in list(source.ancestors(ot[0])) and gp.must_pass(gp.node_of(WL), [gp.node_of(ot[0])], normal_only=True) and len(ot[0].args) == 2 and u(ot[0].args[0]) == docv and u(ot[0].args[1]).endswith(".number_of_lines")
    chk.ob("O14.4", "offset table built after the loop on every normal exit", ok, ot[0] if ot else pds, "")
    # what the loop does otherwise: decompress a valid archive, else download to the right target with the right size
    dcs = [n for n in ast.walk(WL) if isinstance(n, ast.Call) and last_attr(n.func) == "decompress"]
    ok = bool(dcs) and [u(a) for a in dcs[0].args[:2]] == [archv, docv]
    if ok:
        fs = pat.fact_nodes(dcs[0], stop=WL)
        szf = [b_ for b_ in (pat.match(f_, f"self.has_expected_size({archv}, E_s)") for f_ in fs) if b_ is not None]
        ok = any(pat.is_(f_, f"self.is_locally_available({archv})") for f_ in fs) and any("compressed_size_in_bytes" in b_["s"] and "uncompressed" not in b_["s"] for b_ in szf)
    chk.ob("O14.4", "an archive is decompressed only if present with its expected (compressed) size", ok, dcs[0] if dcs else WL, "")
    dws = [n for n in ast.walk(WL) if isinstance(n, ast.Call) and last_attr(n.func) == "download" and "downloader" in u(n.func)]
    # roles: the locals passed as the target path (2nd) and the expected size (3rd argument) of downloader.download
    ok = bool(dws) and len(dws[0].args) >= 3 and all(isinstance(a, ast.Name) for a in dws[0].args[1:3])
    if ok:
        tpv, esv = dws[0].args[1].id, dws[0].args[2].id
        pairs = {}
        for n in ast.walk(WL):
            if isinstance(n, ast.Assign) and u(n.targets[0]) in (tpv, esv):
                key = tuple((u(t), pol) for t, pol in guards(n, stop=WL))
                pairs.setdefault(key, {})[u(n.targets[0])] = u(n.value)
        good = {(archv, True), (docv, False)}
        seen = set()
        for d in pairs.values():
            if tpv in d and esv in d:
                comp = "uncompressed" not in d[esv] and "compressed" in d[esv]
                seen.add((d[tpv], comp))
        ok = seen == good
    chk.ob("O14.4", "download target and expected size are paired (archive <-> compressed size, document <-> uncompressed size)", ok, dws[0] if dws else WL, "")
    hs = method(ldr, P, "has_expected_size")
    r = [n for n in walk_body(hs) if isinstance(n, ast.Return)]
    hp = params_of(hs)
    ok = False
    detail = u(r[0].value) if r else ""
    if len(r) == 1 and r[0].value is not None and len(hp) == 3:
        # evaluated on representative (declared, measured) pairs: true iff undeclared or exactly equal; the measured value is getsize(<file parameter>)
        rv_ = returned(r[0])
        detail = u(rv_)
        meas = compared_with(rv_, hp[2])
        if meas is not None and same_value(meas, expr(f"os.path.getsize({hp[1]})"), local_defs(hs)):
            ok, d_ = mismatch_table(rv_, hp[2], u(meas), False)
            detail += ("" if ok else " — " + d_)
    chk.ob("O14.4", "has_expected_size: undeclared size or exact match", ok, hs, detail)
    ila = method(ldr, P, "is_locally_available")
    params(ila, 2)
    ilr = [n for n in walk_body(ila) if isinstance(n, ast.Return)]
    ok = len(ilr) == 1 and ilr[0].value is not None and u(returned(ilr[0])) == f"os.path.isfile({params_of(ila)[1]})"
    chk.ob("O14.4", "is_locally_available: a regular file exists", ok, ila, "")
    line_count_rule(chk, "O14.4", ldr)
    pb = method(ldr, P, "prepare_bundled_document_set")
    gb = cfg_of(pb)
    rt = [n for n in walk_body(pb) if isinstance(n, ast.Return) and source.is_const(n.value, True)]
    otb = [n for n in walk_body(pb) if isinstance(n, ast.Call) and last_attr(n.func) == "create_file_offset_table"]
    ok = bool(rt) and bool(otb) and all(gb.dominated_by_nodes(gb.node_of(r_), [gb.node_of(o) for o in otb]) for r_ in rt)
    if ok:
        bdoc, _, _ = path_roles(pb)
        ok = all(pat.guarded(r_, f"self.is_locally_available({bdoc})") is not None and pat.guarded(r_, f"self.has_expected_size({bdoc}, E_s)") is not None for r_ in rt)
    chk.ob("O14.4", "bundled: `return True` only for a present, right-sized file, after the offset table was built", ok, rt[0] if rt else pb, "")

    # ---- O14.5 format dispatch -------------------------------------------------------------------------------------------------------------------------------
    chk.rule("O14.5", "every extension of the supported-archive table has a branch in decompress(); multi-dot extensions are special-cased in splitext(); unknown extensions raise; the library "
             "fallback follows a failed (or unavailable) external decompressor on every path", 11,
             "a supported archive type is rejected / silently not decompressed; a corrupt archive or crashing tool yields an empty document file without error")
    tbl = io_.module_constant("SUPPORTED_ARCHIVE_FORMATS")
    if not isinstance(tbl, (ast.List, ast.Tuple, ast.Set)):
        raise AnchorMissing("SUPPORTED_ARCHIVE_FORMATS table")
    exts = [e.value for e in tbl.elts if isinstance(e, ast.Constant)]
    dec = io_.func("decompress")
    # role: the local holding the archive's extension = the second element of splitext(<archive parameter>) (tuple-unpack position 1, or subscript [1])
    extv = None
    for n in walk_body(dec):
        if isinstance(n, ast.Assign) and len(n.targets) == 1:
            t_, v_ = n.targets[0], n.value
            if isinstance(v_, ast.Call) and last_attr(v_.func) == "splitext" and isinstance(t_, ast.Tuple) and len(t_.elts) == 2 and isinstance(t_.elts[1], ast.Name):
                extv = t_.elts[1].id
            elif isinstance(v_, ast.Subscript) and isinstance(v_.value, ast.Call) and last_attr(v_.value.func) == "splitext" and source.is_const(v_.slice, 1) and isinstance(t_, ast.Name):
                extv = t_.id
    if extv is None:
        raise AnchorMissing("local receiving the extension from splitext() in io.decompress")
    extvs = {extv}
    for _ in range(3):  # plain aliases of that local (single-assignment copies)
        extvs |= {k for k, v_ in local_defs(dec).items() if isinstance(v_, ast.Name) and v_.id in extvs}
    handled = set()
    for n in walk_body(dec):
        if isinstance(n, ast.If):
            c = oriented(n.test, lambda x: u(x) in extvs)
            if c:
                if c[1] == "==" and isinstance(c[2], ast.Constant):
                    handled.add(c[2].value)
                elif c[1] == "in" and isinstance(c[2], (ast.List, ast.Tuple, ast.Set)):
                    handled |= {e.value for e in c[2].elts if isinstance(e, ast.Constant)}

    def dispatch(value):
        """outcome of decompress() for one concrete extension, by evaluating the if-chain (tests over the extension local only); None if the chain has an unsupported shape."""
        def atom(n, env):
            if isinstance(n, (ast.BoolOp, ast.UnaryOp)):
                return None
            return bool(ev(n, env))

        def on_stmt(s_, env, b):
            return "skip" if not isinstance(s_, (ast.If, ast.Return, ast.Raise)) else None

        try:
            return tables.decide(dec.body, atom, {k: value for k in extvs}, on_stmt=on_stmt)
        except (tables.Unsupported, UnknownAtom, CannotEval):
            return None

    for e in exts:
        o = dispatch(e)
        ok = e in handled if o is None else (o.kind != "raise" and e in handled)
        chk.ob("O14.5", f"extension {e} has a branch in decompress()", ok, dec, "" if ok or o is None else f"decompress() ends with `{o.text()[:80]}` for this extension", key=f"{_I}:decompress:ext:{e}")
    se = io_.func("splitext")
    special = {c.args[0].value for c in source.calls_in(se, attr="endswith") if c.args and isinstance(c.args[0], ast.Constant)}
    multi = [e for e in exts if e.count(".") > 1]
    for e in multi:
        chk.ob("O14.5", f"multi-dot extension {e} special-cased in splitext()", e in special, se, "", key=f"{_I}:splitext:{e}")
    for n in walk_body(se):
        rv_ = returned(n) if isinstance(n, ast.Return) else None
        if isinstance(rv_, ast.Tuple) and len(rv_.elts) == 2:
            # the suffix test that holds (positively) at this return, whichever arm it sits in
            pos = [f_ for f_ in pat.fact_nodes(n) if isinstance(f_, ast.Call) and last_attr(f_.func) == "endswith" and f_.args and source.is_const(f_.args[0]) and isinstance(f_.args[0].value, str)]
            if len(pos) == 1:
                t = pos[0]
                k = len(t.args[0].value)
                ok = u(rv_.elts[0]).endswith((f"[0:-{k}]", f"[:-{k}]")) and u(rv_.elts[1]).endswith(f"[-{k}:]")
                chk.ob("O14.5", f"splitext cuts {t.args[0].value} at its own length", ok, n, u(rv_))
    # evaluated: extensions outside the table (and the empty one) end in a raise; falls back to the shape of the chain when it cannot be evaluated
    outs = [dispatch(x) for x in (".unsupported", "", ".tar.xz")]
    if all(o is not None for o in outs):
        ok = all(o.kind == "raise" for o in outs)
    else:
        last = dec.body[-1]
        while isinstance(last, ast.If) and last.orelse:
            if len(last.orelse) == 1 and isinstance(last.orelse[0], ast.If):
                last = last.orelse[0]
            else:
                break
        ok = isinstance(last, ast.If) and last.orelse and isinstance(last.orelse[-1], ast.Raise)
    chk.ob("O14.5", "unknown extension raises", bool(ok), dec, "")
    dm = io_.func("_do_decompress_manually")
    gm = cfg_of(dm)
    lib = [gm.node_of(n) for n in walk_body(dm) if isinstance(n, ast.Call) and last_attr(n.func) == "_do_decompress_manually_with_lib"]
    okret = [gm.node_of(n) for n in walk_body(dm) if isinstance(n, ast.Return) and any(isinstance(t, ast.Call) and last_attr(t.func) == "_do_decompress_manually_external" for t in pat.fact_nodes(n))]
    ok = bool(lib) and gm.must_pass(gm.entry, lib + okret, normal_only=True)
    path = None
    if not ok:
        p = gm.find_path(gm.entry, gm.exit, avoid=lib + okret, edge_ok=gm.normal_edge)
        path = gm.describe_path(p) if p else None
    chk.ob("O14.5", "library fallback (or a successful external run) on every path", ok, dm, "" if ok else "a path ends without having decompressed anything: " + " ".join(path or []), path=path)
    dme = io_.func("_do_decompress_manually_external")
    rets = [n for n in walk_body(dme) if isinstance(n, ast.Return)]
    ok = any(source.is_const(r.value, False) and isinstance(source.enclosing(r, ast.ExceptHandler), ast.ExceptHandler) for r in rets) and any(source.is_const(r.value, True) for r in rets)
    chk.ob("O14.5", "external decompressor reports failure as False", ok, dme, "")
    runc = [n for n in walk_body(dme) if isinstance(n, ast.Call) and dotted(n.func) == "subprocess.run"]
    ck = arg_of(runc[0], None, "check") if runc else None
    chk.ob("O14.5", "external decompressor failures are detected (check=True)", ck is not None and source.is_const(ck, True), runc[0] if runc else dme, "")

    # ---- O14.6 offset table protocol ---------------------------------------------------------------------------------------------------------------------------------
    offset_table_protocol(chk, io_, "O14.6")

    # ---- O14.8 the offset table is published by rename only (F24) / O14.9 a (re)created document file invalidates its table (F25) ------------------------------------
    roles = offset_table_publication(chk, repo, io_, "O14.8")
    recreated_file_invalidates_table(chk, io_, ldr, roles, "O14.9")

    # ---- O14.7 advisory (superseded by O14.8 once a failing history was shown, F24; kept for a tree on which no rename exists anywhere) -----------------------------------
    cf_ = io_.methods(io_.cls("FileOffsetTable")).get("create_for_data_file")
    if cf_ is not None and not any(isinstance(n, ast.Call) and dotted(n.func) in _RENAMES for n in ast.walk(io_.tree)):
        chk.adv("O14.7", "the offset table (whose mtime later means 'valid') is written under its final name, not via temp + rename (see O14.8)", cf_)


from sa.selftest import V  # noqa: E402

VARIANTS = [
    V("F14: truthiness on the line count", "break", _L, "        if lines_read is not None and lines_read != expected_number_of_lines:", "        if lines_read and lines_read != expected_number_of_lines:", "O14.4"),
    V("write to the final path", "break", _N, "            expected_size_in_bytes = download_http(url, tmp_data_set_path, expected_size_in_bytes, progress_indicator)", "            expected_size_in_bytes = download_http(url, local_path, expected_size_in_bytes, progress_indicator)", "O14.1"),
    V("rename before the size check", "break", _N, "    download_size = os.path.getsize(tmp_data_set_path)\n    if expected_size_in_bytes", "    os.rename(tmp_data_set_path, local_path)\n    download_size = os.path.getsize(local_path)\n    if expected_size_in_bytes", "O14.1"),
    V("handler does not remove tmp", "break", _N, "    except BaseException:\n        if os.path.isfile(tmp_data_set_path):\n            os.remove(tmp_data_set_path)\n        raise", "    except BaseException:\n        raise", "O14.1"),
    V("range(N)", "break", _N, "    for i in range(HTTP_DOWNLOAD_RETRIES + 1):", "    for i in range(HTTP_DOWNLOAD_RETRIES):", "O14.2"),
    V("seed m2: only 4xx/5xx rejected", "break", _N, "        if r.status > 299:", "        if r.status >= 400:", "O14.2"),
    V("retry on any exception", "break", _N, "        except (urllib3.exceptions.ProtocolError, urllib3.exceptions.ReadTimeoutError) as exc:", "        except Exception as exc:", "O14.2"),
    V("post-download size test dropped", "break", _L, "        if size_in_bytes is not None and actual_size != size_in_bytes:\n            raise exceptions.DataError(\n                f\"[{target_path}] is corrupt. Downloaded", "        if False:\n            raise exceptions.DataError(\n                f\"[{target_path}] is corrupt. Downloaded", "O14.3"),
    V("URL error swallowed", "break", _L, "        except urllib.error.URLError as e:\n            raise exceptions.DataError(f\"Could not download [{data_url}] to [{target_path}].\") from e", "        except urllib.error.URLError as e:\n            self.logger.warning(\"Could not download [%s]\", data_url)", "O14.3"),
    V("break on presence only", "break", _L, "            if self.is_locally_available(doc_path) and self.has_expected_size(doc_path, document_set.uncompressed_size_in_bytes):\n                break", "            if self.is_locally_available(doc_path):\n                break", "O14.4"),
    V("offset table only on one branch", "break", _L, "                    raise\n\n        self.create_file_offset_table(doc_path, document_set.number_of_lines)", "                    raise\n\n        if archive_path:\n            self.create_file_offset_table(doc_path, document_set.number_of_lines)", "O14.4"),
    V("new extension in the table without a branch", "break", _I, "SUPPORTED_ARCHIVE_FORMATS = [\".zip\", \".bz2\", \".gz\", \".tar\", \".tar.gz\", \".tgz\", \".tar.bz2\", \".zst\"]", "SUPPORTED_ARCHIVE_FORMATS = [\".zip\", \".bz2\", \".gz\", \".tar\", \".tar.gz\", \".tgz\", \".tar.bz2\", \".zst\", \".xz\"]", "O14.5"),
    V("seed m3: library fallback only when the tool is missing", "break", _I, "            \"%s not found in PATH. Using standard library, decompression will take longer.\", decompressor_bin\n        )\n\n    _do_decompress_manually_with_lib(target_directory, filename, decompressor_lib(filename))",
      "            \"%s not found in PATH. Using standard library, decompression will take longer.\", decompressor_bin\n        )\n        _do_decompress_manually_with_lib(target_directory, filename, decompressor_lib(filename))", "O14.5"),
    V("seed m1: character offsets instead of tell()", "break", _I, "                        file_offset_table.add_offset(line_number, data_file.tell())", "                        file_offset_table.add_offset(line_number, line_number * len(line))", "O14.6"),
    V("offset recorded before the increment", "break", _I, "                        line_number += 1\n                        if line_number % 50000 == 0:\n                            file_offset_table.add_offset(line_number, data_file.tell())", "                        if line_number % 50000 == 0:\n                            file_offset_table.add_offset(line_number, data_file.tell())\n                        line_number += 1", "O14.6"),
    V("reader uses <", "break", _I, "            if line_number <= target_line_number:", "            if line_number < target_line_number:", "O14.6"),
    V("writer swaps the fields", "break", _I, "        print(f\"{line_number};{offset}\", file=self.offset_file)", "        print(f\"{offset};{line_number}\", file=self.offset_file)", "O14.6"),
    V("size check by truthiness (a declared size of 0 is skipped)", "break", _N, "    if expected_size_in_bytes is not None and download_size != expected_size_in_bytes:", "    if expected_size_in_bytes and download_size != expected_size_in_bytes:", "O14.1"),
    V("size check joined with `or` (an undeclared size is a mismatch)", "break", _N, "    if expected_size_in_bytes is not None and download_size != expected_size_in_bytes:", "    if expected_size_in_bytes is not None or download_size != expected_size_in_bytes:", "O14.1"),
    V("only short downloads are rejected", "break", _N, "    if expected_size_in_bytes is not None and download_size != expected_size_in_bytes:", "    if expected_size_in_bytes is not None and download_size < expected_size_in_bytes:", "O14.1"),
    V("last attempt's error is swallowed (re-raise one index early only)", "break", _N, "            if i == HTTP_DOWNLOAD_RETRIES:", "            if i == HTTP_DOWNLOAD_RETRIES - 1:", "O14.2"),
    V("304 accepted", "break", _N, "        if r.status > 299:", "        if r.status > 299 and r.status != 304:", "O14.2"),
    V("downloaded size compared with itself", "break", _L, "        actual_size = os.path.getsize(target_path)", "        actual_size = size_in_bytes", "O14.3"),
    V("has_expected_size by truthiness", "break", _L, "        return expected_size is None or os.path.getsize(file_name) == expected_size", "        return not expected_size or os.path.getsize(file_name) == expected_size", "O14.4"),
    V("has_expected_size accepts larger files", "break", _L, "        return expected_size is None or os.path.getsize(file_name) == expected_size", "        return expected_size is None or os.path.getsize(file_name) >= expected_size", "O14.4"),
    V("line count compared without the None guard", "break", _L, "        if lines_read is not None and lines_read != expected_number_of_lines:", "        if lines_read != expected_number_of_lines:", "O14.4"),
    V("download pair swapped", "break", _L, "                    target_path = archive_path\n                    expected_size = document_set.compressed_size_in_bytes", "                    target_path = archive_path\n                    expected_size = document_set.uncompressed_size_in_bytes", "O14.4"),
    V("empty-read test changed", "break", _I, "                        if len(line) == 0:\n                            break", "                        if len(line) == 1:\n                            break", "O14.6"),
    V("reader unpacks the fields in the other order", "break", _I, "            line_number, offset_in_bytes = (int(i) for i in line.strip().split(\";\"))", "            offset_in_bytes, line_number = (int(i) for i in line.strip().split(\";\"))", "O14.6"),
    # F24 (repair 98c805c): the offset table is built under a temporary name and published by rename
    V("F24: textual revert of 98c805c (table written under its final name)", "break", _I,
      "        final_path = file_offset_table.offset_table_path\n        file_offset_table.offset_table_path = f\"{final_path}.tmp\"\n        try:\n            with file_offset_table:\n                with open(data_file_path, encoding=\"utf-8\") as data_file:\n                    while True:\n                        line = data_file.readline()\n                        if len(line) == 0:\n                            break\n                        line_number += 1\n                        if line_number % 50000 == 0:\n                            file_offset_table.add_offset(line_number, data_file.tell())\n            os.replace(file_offset_table.offset_table_path, final_path)\n        except BaseException:\n            if os.path.exists(file_offset_table.offset_table_path):\n                os.remove(file_offset_table.offset_table_path)\n            raise\n        finally:\n            file_offset_table.offset_table_path = final_path\n",
      "        with file_offset_table:\n            with open(data_file_path, encoding=\"utf-8\") as data_file:\n                while True:\n                    line = data_file.readline()\n                    if len(line) == 0:\n                        break\n                    line_number += 1\n                    if line_number % 50000 == 0:\n                        file_offset_table.add_offset(line_number, data_file.tell())\n", "O14.8"),
    V("F24: the temporary name is never installed (the `with` opens the final name; the rename is a no-op)", "break", _I, "        file_offset_table.offset_table_path = f\"{final_path}.tmp\"\n", "        tmp_path = f\"{final_path}.tmp\"\n", "O14.8"),
    V("F24: the 'temporary' name is the final name", "break", _I, "        file_offset_table.offset_table_path = f\"{final_path}.tmp\"\n", "        file_offset_table.offset_table_path = f\"{final_path}\"\n", "O14.8"),
    V("F24: published before the table is complete (rename inside the writing block)", "break", _I,
      "                            file_offset_table.add_offset(line_number, data_file.tell())\n            os.replace(file_offset_table.offset_table_path, final_path)\n",
      "                            file_offset_table.add_offset(line_number, data_file.tell())\n                os.replace(file_offset_table.offset_table_path, final_path)\n", "O14.8"),
    V("F24: published by the failure handler too (an aborted build is renamed onto the final name)", "break", _I,
      "            if os.path.exists(file_offset_table.offset_table_path):\n                os.remove(file_offset_table.offset_table_path)\n            raise\n",
      "            if os.path.exists(file_offset_table.offset_table_path):\n                os.replace(file_offset_table.offset_table_path, final_path)\n            raise\n", "O14.8"),
    V("F24: the path attribute is reset to the final name before the `with` opens it", "break", _I,
      "        file_offset_table.offset_table_path = f\"{final_path}.tmp\"\n        try:\n", "        file_offset_table.offset_table_path = f\"{final_path}.tmp\"\n        tmp_path = file_offset_table.offset_table_path\n        file_offset_table.offset_table_path = final_path\n        try:\n", "O14.8"),
    V("F24: a second writer opens the .offset name directly", "break", _I, "        console.println(\"[OK]\")\n        return line_number\n",
      "        console.println(\"[OK]\")\n        with open(f\"{data_file_path}.offset\", \"at\") as extra:\n            extra.write(\"\")\n        return line_number\n", "O14.8"),
    # F25 (repair d8403e6): a (re)created document file invalidates its offset table
    V("F25: no invalidation after decompress (prepare_document_set)", "break", _L,
      "                self.decompressor.decompress(archive_path, doc_path, document_set.uncompressed_size_in_bytes)\n                self.invalidate_file_offset_table(doc_path)\n            else:\n                if document_set.has_compressed_corpus():",
      "                self.decompressor.decompress(archive_path, doc_path, document_set.uncompressed_size_in_bytes)\n            else:\n                if document_set.has_compressed_corpus():", "O14.9"),
    V("F25: no invalidation after download", "break", _L,
      "                    self.downloader.download(document_set.base_url, target_path, expected_size)\n                    self.invalidate_file_offset_table(doc_path)\n",
      "                    self.downloader.download(document_set.base_url, target_path, expected_size)\n", "O14.9"),
    V("F25: no invalidation after decompress (bundled)", "break", _L,
      "                    self.decompressor.decompress(archive_path, doc_path, document_set.uncompressed_size_in_bytes)\n                    self.invalidate_file_offset_table(doc_path)\n                else:\n                    # treat this is an error",
      "                    self.decompressor.decompress(archive_path, doc_path, document_set.uncompressed_size_in_bytes)\n                else:\n                    # treat this is an error", "O14.9"),
    V("F25: the helper removes the table only when there is none", "break", _L, "        if os.path.exists(f\"{document_file_path}.offset\"):\n            io.remove_file_offset_table(document_file_path)",
      "        if not os.path.exists(f\"{document_file_path}.offset\"):\n            io.remove_file_offset_table(document_file_path)", "O14.9"),
    V("F25: the helper looks for another file name", "break", _L, "        if os.path.exists(f\"{document_file_path}.offset\"):\n            io.remove_file_offset_table(document_file_path)",
      "        if os.path.exists(f\"{document_file_path}.offsets\"):\n            io.remove_file_offset_table(document_file_path)", "O14.9"),
    V("F25: the archive's table is invalidated instead of the document's", "break", _L,
      "                self.decompressor.decompress(archive_path, doc_path, document_set.uncompressed_size_in_bytes)\n                self.invalidate_file_offset_table(doc_path)\n            else:\n                if document_set.has_compressed_corpus():",
      "                self.decompressor.decompress(archive_path, doc_path, document_set.uncompressed_size_in_bytes)\n                self.invalidate_file_offset_table(archive_path)\n            else:\n                if document_set.has_compressed_corpus():", "O14.9"),
    V("F25: invalidation only on the failure path of the download", "break", _L,
      "                    self.downloader.download(document_set.base_url, target_path, expected_size)\n                    self.invalidate_file_offset_table(doc_path)\n                except exceptions.DataError as e:\n",
      "                    self.downloader.download(document_set.base_url, target_path, expected_size)\n                except exceptions.DataError as e:\n                    self.invalidate_file_offset_table(doc_path)\n", "O14.9"),
    V("F25: io.remove_file_offset_table removes another name than the readers open", "break", _I, "        os.remove(f\"{data_file_path}.offset\")", "        os.remove(f\"{data_file_path}.offsets\")", "O14.9"),
    # preserving
    V("size check with inverted arms (rename in the true arm)", "keep", _N,
      "    if expected_size_in_bytes is not None and download_size != expected_size_in_bytes:\n        if os.path.isfile(tmp_data_set_path):\n            os.remove(tmp_data_set_path)\n        raise exceptions.DataError(\n            \"Download of [%s] is corrupt. Downloaded [%d] bytes but [%d] bytes are expected. Please retry.\"\n            % (local_path, download_size, expected_size_in_bytes)\n        )\n    os.rename(tmp_data_set_path, local_path)",
      "    if expected_size_in_bytes is None or expected_size_in_bytes == download_size:\n        os.rename(tmp_data_set_path, local_path)\n    else:\n        if os.path.isfile(tmp_data_set_path):\n            os.remove(tmp_data_set_path)\n        raise exceptions.DataError(\n            \"Download of [%s] is corrupt. Downloaded [%d] bytes but [%d] bytes are expected. Please retry.\"\n            % (local_path, download_size, expected_size_in_bytes)\n        )"),
    V("size check as nested ifs, locals renamed", "keep", _N,
      "    download_size = os.path.getsize(tmp_data_set_path)\n    if expected_size_in_bytes is not None and download_size != expected_size_in_bytes:\n        if os.path.isfile(tmp_data_set_path):\n            os.remove(tmp_data_set_path)\n        raise exceptions.DataError(\n            \"Download of [%s] is corrupt. Downloaded [%d] bytes but [%d] bytes are expected. Please retry.\"\n            % (local_path, download_size, expected_size_in_bytes)\n        )",
      "    got = os.path.getsize(tmp_data_set_path)\n    if expected_size_in_bytes is not None:\n        if expected_size_in_bytes != got:\n            if os.path.isfile(tmp_data_set_path):\n                os.remove(tmp_data_set_path)\n            raise exceptions.DataError(\n                \"Download of [%s] is corrupt. Downloaded [%d] bytes but [%d] bytes are expected. Please retry.\"\n                % (local_path, got, expected_size_in_bytes)\n            )"),
    V("last-index test flipped, logging first", "keep", _N, "            if i == HTTP_DOWNLOAD_RETRIES:", "            logger.debug(\"attempt %d failed\", i)\n            if HTTP_DOWNLOAD_RETRIES <= i:"),
    V("status test inverted", "keep", _N, "        if r.status > 299:", "        if not r.status < 300:"),
    V("line-count test flipped", "keep", _L, "        if lines_read is not None and lines_read != expected_number_of_lines:", "        if expected_number_of_lines != lines_read and lines_read is not None:"),
    V("has_expected_size flipped", "keep", _L, "        return expected_size is None or os.path.getsize(file_name) == expected_size", "        return expected_size == os.path.getsize(file_name) or expected_size is None"),
    V("loop exit as nested ifs", "keep", _L, "            if self.is_locally_available(doc_path) and self.has_expected_size(doc_path, document_set.uncompressed_size_in_bytes):\n                break",
      "            if self.is_locally_available(doc_path):\n                if self.has_expected_size(doc_path, document_set.uncompressed_size_in_bytes):\n                    break"),
    V("extension constant on the left", "keep", _I, "    if extension == \".zip\":", "    if \".zip\" == extension:"),
    V("extension via subscript, renamed", "keep", _I, "    _, extension = splitext(zip_name)\n    if extension == \".zip\":", "    ext = splitext(zip_name)[1]\n    extension = ext\n    if ext == \".zip\":"),
    V("os.replace", "keep", _N, "    os.rename(tmp_data_set_path, local_path)", "    os.replace(tmp_data_set_path, local_path)"),
    V(">= 300", "keep", _N, "        if r.status > 299:", "        if r.status >= 300:"),
    V("not line", "keep", _I, "                        if len(line) == 0:\n                            break\n                        line_number += 1", "                        if not line:\n                            break\n                        line_number += 1"),
    # F24 respelled
    V("F24 respelled: os.rename instead of os.replace", "keep", _I, "            os.replace(file_offset_table.offset_table_path, final_path)", "            os.rename(file_offset_table.offset_table_path, final_path)"),
    [V("F24 respelled: temporary name in a local, `+` instead of an f-string, other suffix", "keep", _I, "        file_offset_table.offset_table_path = f\"{final_path}.tmp\"\n", "        tmp_path = final_path + \".part\"\n        file_offset_table.offset_table_path = tmp_path\n"),
     V("", "keep", _I, "            os.replace(file_offset_table.offset_table_path, final_path)", "            os.replace(tmp_path, final_path)"),
     V("", "keep", _I, "            if os.path.exists(file_offset_table.offset_table_path):\n                os.remove(file_offset_table.offset_table_path)", "            if os.path.exists(tmp_path):\n                os.remove(tmp_path)")],
    V("F24 respelled: a separate table object built on the temporary name (no attribute juggling)", "keep", _I,
      "        final_path = file_offset_table.offset_table_path\n        file_offset_table.offset_table_path = f\"{final_path}.tmp\"\n        try:\n            with file_offset_table:\n                with open(data_file_path, encoding=\"utf-8\") as data_file:\n                    while True:\n                        line = data_file.readline()\n                        if len(line) == 0:\n                            break\n                        line_number += 1\n                        if line_number % 50000 == 0:\n                            file_offset_table.add_offset(line_number, data_file.tell())\n            os.replace(file_offset_table.offset_table_path, final_path)\n        except BaseException:\n            if os.path.exists(file_offset_table.offset_table_path):\n                os.remove(file_offset_table.offset_table_path)\n            raise\n        finally:\n            file_offset_table.offset_table_path = final_path\n",
      "        tmp_path = data_file_path + \".offset.tmp\"\n        building = FileOffsetTable(data_file_path, tmp_path, \"wt\")\n        try:\n            with building:\n                with open(data_file_path, encoding=\"utf-8\") as data_file:\n                    while True:\n                        line = data_file.readline()\n                        if len(line) == 0:\n                            break\n                        line_number += 1\n                        if line_number % 50000 == 0:\n                            building.add_offset(line_number, data_file.tell())\n        except BaseException:\n            if os.path.exists(tmp_path):\n                os.remove(tmp_path)\n            raise\n        os.replace(tmp_path, f\"{data_file_path}.offset\")\n"),
    V("F24 respelled: the failure handler does not test for existence first", "keep", _I,
      "            if os.path.exists(file_offset_table.offset_table_path):\n                os.remove(file_offset_table.offset_table_path)\n            raise\n",
      "            try:\n                os.remove(file_offset_table.offset_table_path)\n            except FileNotFoundError:\n                pass\n            raise\n"),
    # F25 respelled
    V("F25 respelled: invalidation written out after decompress", "keep", _L,
      "                self.decompressor.decompress(archive_path, doc_path, document_set.uncompressed_size_in_bytes)\n                self.invalidate_file_offset_table(doc_path)\n            else:\n                if document_set.has_compressed_corpus():",
      "                self.decompressor.decompress(archive_path, doc_path, document_set.uncompressed_size_in_bytes)\n                if os.path.isfile(doc_path + \".offset\"):\n                    io.remove_file_offset_table(doc_path)\n            else:\n                if document_set.has_compressed_corpus():"),
    V("F25 respelled: helper with isfile / FileOffsetTable.remove / early return", "keep", _L, "        if os.path.exists(f\"{document_file_path}.offset\"):\n            io.remove_file_offset_table(document_file_path)",
      "        table = document_file_path + \".offset\"\n        if not os.path.isfile(table):\n            return\n        io.FileOffsetTable.remove(document_file_path)"),
    V("F25 respelled: invalidation after the try statement of the download", "keep", _L,
      "                    self.downloader.download(document_set.base_url, target_path, expected_size)\n                    self.invalidate_file_offset_table(doc_path)\n                except exceptions.DataError as e:\n                    if e.message == \"Cannot download data because no base URL is provided.\" and self.is_locally_available(target_path):\n                        raise exceptions.DataError(\n                            f\"[{target_path}] is present but does not have the expected \"\n                            f\"size of [{expected_size}] bytes and it cannot be downloaded \"\n                            f\"because no base URL is provided.\"\n                        ) from None\n                    raise\n",
      "                    self.downloader.download(document_set.base_url, target_path, expected_size)\n                except exceptions.DataError as e:\n                    if e.message == \"Cannot download data because no base URL is provided.\" and self.is_locally_available(target_path):\n                        raise exceptions.DataError(\n                            f\"[{target_path}] is present but does not have the expected \"\n                            f\"size of [{expected_size}] bytes and it cannot be downloaded \"\n                            f\"because no base URL is provided.\"\n                        ) from None\n                    raise\n                self.invalidate_file_offset_table(target_path)\n"),
    V("F25 respelled: the downloaded target's table is invalidated (target is the document file whenever the download creates it)", "keep", _L,
      "                    self.downloader.download(document_set.base_url, target_path, expected_size)\n                    self.invalidate_file_offset_table(doc_path)\n",
      "                    self.downloader.download(document_set.base_url, target_path, expected_size)\n                    self.invalidate_file_offset_table(target_path)\n"),
]
